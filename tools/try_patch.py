#!/usr/bin/env python3
"""Sensitivity runs: apply a change to a scratch copy of the tree under test, make sure the pinned
test-suite still passes there, then run checks against the copy (VERIF_REPO) and report which
of them raise a VIOLATION.  Nothing under /repo or /verif/evidence is touched.

  tools/try_patch.py --patch FILE [--checks C01,C03] [--tier quick] [--seed N]
  tools/try_patch.py --mutants mutants/mutants.json [--only ID,...]
"""
import argparse
import json
import os
import shutil
import subprocess
import sys
import tempfile
import time

HERE = os.path.dirname(os.path.dirname(os.path.abspath(__file__)))
REPO = os.environ.get('VERIF_REPO', '/repo')
ALL = ['C%02d' % i for i in range(1, 20)]


def make_copy():
    d = tempfile.mkdtemp(prefix='vf-mutant-')
    for name in ('mistletoe', 'test', 'setup.py', 'README.md', 'dev-guide.md'):
        src = os.path.join(REPO, name)
        if os.path.isdir(src):
            shutil.copytree(src, os.path.join(d, name), ignore=shutil.ignore_patterns('__pycache__'))
        elif os.path.exists(src):
            shutil.copy(src, d)
    return d


def run_tests(copy):
    p = subprocess.run(['/venv/bin/python', '-m', 'pytest', '-q', '-p', 'no:cacheprovider', '-x'], cwd=copy,
                       stdout=subprocess.PIPE, stderr=subprocess.STDOUT, env=dict(os.environ, PYTHONDONTWRITEBYTECODE='1'))
    tail = p.stdout.decode(errors='replace').strip().split('\n')[-1]
    return p.returncode == 0, tail


def run_check(copy, pid, tier, seed, scratch):
    env = dict(os.environ, VERIF_REPO=copy, VERIF_SEED=str(seed), VERIF_EVIDENCE_DIR=os.path.join(scratch, 'evidence'),
               VERIF_REPLAY_DIR=os.path.join(scratch, 'replays'))
    t0 = time.time()
    p = subprocess.run([os.path.join(HERE, 'check'), pid, '--tier', tier], cwd=HERE, env=env, stdout=subprocess.PIPE, stderr=subprocess.PIPE)
    out = p.stdout.decode(errors='replace')
    fails = [l for l in out.split('\n') if l.startswith('FAIL ')]
    return p.returncode, time.time() - t0, fails


def apply_textual(copy, m):
    path = os.path.join(copy, m['file'])
    s = open(path).read()
    if s.count(m['old']) != 1:
        raise SystemExit('mutant %s: pattern occurs %d times in %s' % (m['id'], s.count(m['old']), m['file']))
    open(path, 'w').write(s.replace(m['old'], m['new']))


def evaluate(label, prepare, checks, tier, seed):
    copy = make_copy()
    scratch = tempfile.mkdtemp(prefix='vf-scratch-')
    try:
        prepare(copy)
        ok, tail = run_tests(copy)
        res = {'label': label, 'tests_pass': ok, 'tests': tail, 'caught_by': [], 'missed_by': [], 'detail': {}}
        if not ok:
            return res
        for pid in checks:
            rc, dt, fails = run_check(copy, pid, tier, seed, scratch)
            (res['caught_by'] if rc == 1 else res['missed_by']).append(pid)
            res['detail'][pid] = {'exit': rc, 'wall': round(dt, 1), 'first': fails[0][:300] if fails else '', 'all': [f[:110] for f in fails]}
        return res
    finally:
        shutil.rmtree(copy, ignore_errors=True)
        shutil.rmtree(scratch, ignore_errors=True)


def main():
    ap = argparse.ArgumentParser()
    ap.add_argument('--patch')
    ap.add_argument('--mutants')
    ap.add_argument('--only')
    ap.add_argument('--checks')
    ap.add_argument('--tier', default='quick')
    ap.add_argument('--seed', type=int, default=1)
    ap.add_argument('--json')
    a = ap.parse_args()
    results = []
    if a.patch:
        checks = a.checks.split(',') if a.checks else ALL
        patch = os.path.abspath(a.patch)

        def prep(copy):
            subprocess.run(['git', 'init', '-q'], cwd=copy, check=True)
            subprocess.run(['git', 'apply', '--whitespace=nowarn', patch], cwd=copy, check=True)
        results.append(evaluate(a.patch, prep, checks, a.tier, a.seed))
    if a.mutants:
        ms = json.load(open(a.mutants))
        only = set(a.only.split(',')) if a.only else None
        for m in ms:
            if only and m['id'] not in only:
                continue
            checks = a.checks.split(',') if a.checks else m['checks']
            results.append(evaluate(m['id'], lambda copy, m=m: apply_textual(copy, m), checks, a.tier, a.seed))
            r = results[-1]
            print('%-28s tests=%s caught_by=%s missed_by=%s' % (r['label'], 'pass' if r['tests_pass'] else 'FAIL(' + r['tests'][-40:] + ')',
                                                               ','.join(r['caught_by']) or '-', ','.join(r['missed_by']) or '-'), flush=True)
    if a.patch:
        print(json.dumps(results, indent=1))
    if a.json:
        json.dump(results, open(a.json, 'w'), indent=1)


if __name__ == '__main__':
    main()
