#!/bin/bash
# tools/run_some.sh <tier> <ID>...  — run the given checks, one result line each
cd "$(dirname "$0")/.." || exit 2
tier="$1"; shift
for p in "$@"; do
    start=$(date +%s); out=$(./check $p --tier "$tier" 2>&1); code=$?; end=$(date +%s)
    echo "$p exit=$code $((end-start))s $(echo "$out" | grep -E '^OK|^VIOLATION|^FAIL|HARNESS' | head -3 | tr '\n' ' ' | cut -c1-600)"
done
