#!/usr/bin/env python3
"""tools/thorough_table.py LOG — Markdown table from the output of tools/run_all.sh thorough (DESIGN.md section 2.7)."""
import re
import sys

rows = []
for line in open(sys.argv[1]):
    m = re.match(r'(C\d\d) exit=(\d+) (\d+)s (?:OK property=\S+ tier=(\S+) seed=(\d+) evaluations=(\d+) distinct_nontrivial=(\d+))?', line)
    if m:
        rows.append(m.groups())
print('| id | exit | wall (16 cores, machine shared with other runs) | evaluations | distinct non-trivial |')
print('|----|------|------|-------------|----------------------|')
for pid, rc, secs, tier, seed, ev, nt in rows:
    secs = int(secs)
    print('| %s | %s | %d min %02d s | %s | %s |' % (pid, rc, secs // 60, secs % 60, format(int(ev), ',') if ev else '-', format(int(nt), ',') if nt else '-'))
