#!/usr/bin/env python3
"""Build the regression corpus regress/<check>/<origin>-<k>.json.

For every seeded change (seeded/*/patch.diff) and every mutant of mutants/mutants.json that a check catches, the
check is run against a scratch copy of the tree with the change applied; the shrunk failing cases it writes
(its replay files) are kept, provided that the same case passes on the unchanged tree.  core.run_check
replays regress/<id>/*.json before generating anything, so a change of that kind is reported within a
second and independently of VERIF_SEED.  Nothing under /repo is touched.

  tools/build_regress.py [--only C07-b,...] [--mutants] [--per 2]
"""
import argparse
import glob
import json
import os
import shutil
import subprocess
import sys
import tempfile

HERE = os.path.dirname(os.path.dirname(os.path.abspath(__file__)))
sys.path.insert(0, os.path.join(HERE, 'tools'))
import try_patch  # noqa: E402


STATUS = []


def collect(label, prepare, checks, per, seed=1):
    copy = try_patch.make_copy()
    kept = []
    try:
        try:
            prepare(copy)
        except (subprocess.CalledProcessError, SystemExit) as exc:
            print('%-24s does not apply to the current tree: %s' % (label, exc), flush=True)
            STATUS.append({'change': label, 'check': '-', 'exit': None, 'signatures': 0, 'first': 'patch does not apply to the current tree (superseded by a later repair)'})
            return kept
        for pid in checks:
            scratch = tempfile.mkdtemp(prefix='vf-regress-')
            try:
                rc, dt, fails = try_patch.run_check(copy, pid, 'quick', seed, scratch)
                files = sorted(glob.glob(os.path.join(scratch, 'replays', '*.json')), key=os.path.getsize)
                n = 0
                for f in files:
                    if n >= per:
                        break
                    payload = json.load(open(f))
                    if not payload.get('part') or 'case' not in payload:
                        continue
                    out = {'property': pid, 'part': payload['part'], 'case': payload['case'], 'origin': label,
                           'failure_on_changed_tree': payload.get('failure')}
                    dest_dir = os.path.join(HERE, 'regress', pid)
                    os.makedirs(dest_dir, exist_ok=True)
                    dest = os.path.join(dest_dir, '%s-%d.json' % (label.replace('/', '_'), n))
                    with open(dest, 'w') as fh:
                        json.dump(out, fh, indent=1, sort_keys=True, default=repr)
                        fh.write('\n')
                    # must pass on the unchanged tree
                    p = subprocess.run([os.path.join(HERE, 'check'), pid, '--replay', dest], cwd=HERE,
                                       env=dict(os.environ, VERIF_EVIDENCE_DIR=os.path.join(scratch, 'ev')),
                                       stdout=subprocess.PIPE, stderr=subprocess.STDOUT)
                    if p.returncode != 0:
                        os.remove(dest)
                        continue
                    kept.append(os.path.relpath(dest, HERE))
                    n += 1
                print('%-24s %s exit=%d replay files=%d kept=%d' % (label, pid, rc, len(files), n), flush=True)
                STATUS.append({'change': label, 'check': pid, 'exit': rc, 'signatures': len(fails), 'first': fails[0][:140] if fails else ''})
            finally:
                shutil.rmtree(scratch, ignore_errors=True)
    finally:
        shutil.rmtree(copy, ignore_errors=True)
    return kept


def main():
    ap = argparse.ArgumentParser()
    ap.add_argument('--only')
    ap.add_argument('--mutants', action='store_true')
    ap.add_argument('--per', type=int, default=2)
    a = ap.parse_args()
    only = set(a.only.split(',')) if a.only else None
    for d in sorted(glob.glob(os.path.join(HERE, 'seeded', '*'))):
        sid = os.path.basename(d)
        if only and sid not in only:
            continue
        meta = json.load(open(os.path.join(d, 'meta.json')))
        checks = list(meta.get('caught_by') or [])
        for x in ((meta.get('after') or {}).get('caught_by_now') or []) + [meta['property']]:
            x = x.split()[0]
            if x not in checks and x.startswith('C') and len(x) == 3:
                checks.append(x)
        patch = os.path.join(d, 'patch-rebased.diff')
        if not os.path.exists(patch):
            patch = os.path.join(d, 'patch.diff')

        def prep(copy, patch=patch):
            subprocess.run(['git', 'init', '-q'], cwd=copy, check=True)
            subprocess.run(['git', 'apply', '--whitespace=nowarn', patch], cwd=copy, check=True)
        collect('seed-' + sid, prep, checks, a.per)
    if a.mutants:
        ms = json.load(open(os.path.join(HERE, 'mutants', 'mutants.json')))
        first = {r['label']: r for r in json.load(open(os.path.join(HERE, 'mutants', 'result-first-run.json')))}
        for m in ms:
            if only and m['id'] not in only:
                continue
            if not first.get(m['id'], {}).get('tests_pass'):
                continue        # the pinned suite already kills it
            collect('mutant-' + m['id'], lambda copy, m=m: try_patch.apply_textual(copy, m), m['checks'][:2], 1)


def write_status():
    """seeded/STATUS.md: which check reports which change, as measured by this run"""
    lines = ['# Seeded changes and own mutants against the current checks', '',
             'Written by `tools/build_regress.py` (quick tier, VERIF_SEED=1, scratch copy of /repo with the change applied).',
             '`exit` 1 = the check reports a VIOLATION, 0 = it does not.', '',
             '| change | check | exit | failure signatures | first |', '|---|---|---|---|---|']
    # rows of an earlier run are kept for the changes that this run did not touch (--only)
    path = os.path.join(HERE, 'seeded', 'STATUS.md')
    touched = {r['change'] for r in STATUS}
    old_rows = []
    if os.path.exists(path):
        for line in open(path):
            cells = [c.strip() for c in line.strip().strip('|').split(' | ')]
            if len(cells) >= 5 and cells[0].startswith(('seed-', 'mutant-')) and cells[0] not in touched:
                old_rows.append({'change': cells[0], 'check': cells[1], 'exit': None if cells[2] == 'None' else int(cells[2]),
                                 'signatures': int(cells[3]), 'first': ' | '.join(cells[4:]).replace('\\|', '|')})
    STATUS[:0] = old_rows
    STATUS.sort(key=lambda r: (r['change'].startswith('mutant-'), r['change'], r['check']))
    for r in STATUS:
        lines.append('| %s | %s | %s | %d | %s |' % (r['change'], r['check'], r['exit'], r['signatures'], r['first'].replace('|', '\\|')))
    caught = {r['change'] for r in STATUS if r['exit'] == 1}
    allc = {r['change'] for r in STATUS}
    lines += ['', '%d changes, %d reported by at least one of the checks run against them, not reported: %s' % (
        len(allc), len(caught), ', '.join(sorted(allc - caught)) or 'none')]
    with open(os.path.join(HERE, 'seeded', 'STATUS.md'), 'w') as f:
        f.write('\n'.join(lines) + '\n')


if __name__ == '__main__':
    try:
        main()
    finally:
        write_status()
