#!/usr/bin/env python3
"""Regenerates /verif/MANIFEST.json from the table below (kept in one place so
the manifest stays valid while checks are added).  Usage: tools/gen_manifest.py"""
import json
import os

HERE = os.path.dirname(os.path.dirname(os.path.abspath(__file__)))

BASELINE = ('cd /repo && /venv/bin/python -m pytest -ra -q -p no:cacheprovider --timeout=900 '
            '--continue-on-collection-errors')

# id -> (technique, engine, level text, level note, design ref)
CHECKS = {}
NOT_YET = {}


def check(pid, technique, engine, text, note, ref):
    CHECKS[pid] = dict(technique=technique, engine=engine, text=text, note=note, ref=ref)


exec(open(os.path.join(HERE, 'tools', 'manifest_table.py')).read())


def main():
    props = [json.loads(l) for l in open(os.path.join(HERE, 'properties.jsonl')) if l.strip()]
    ids = [p['id'] for p in props]
    checks = []
    for pid in ids:
        if pid not in CHECKS:
            continue
        c = CHECKS[pid]
        checks.append({
            'property_id': pid,
            'quick_cmd': './check %s --tier quick' % pid,
            'thorough_cmd': './check %s --tier thorough' % pid,
            'evidence_file': 'evidence/%s.json' % pid,
            'replay_cmd_template': './check %s --replay {path}' % pid,
            'engine': c['engine'],
            'technique': c['technique'],
            'level_claimed': {'category': 'exploration', 'text': c['text'], 'design_ref': c['ref']},
            'level_note': c['note'],
        })
    manifest = {
        'version': 1,
        'setup_cmd': './setup.sh',
        'hooks': {
            'guard': 'MISTLETOE_VERIF',
            'enable': 'no source hooks exist: every observation is made through public API; ./check exports MISTLETOE_VERIF=1 for uniformity',
            'baseline_off_cmd': BASELINE,
            'source_commits': [],
            'add_only': True,
        },
        'engines': [
            {'name': 'hypothesis-sharded', 'path': 'vf/core.py',
             'serves_properties': [p for p in ids if p in CHECKS and 'hypothesis' in CHECKS[p]['engine']],
             'kind_free_text': 'Hypothesis 6.168 as seeded case generator in 16 forked shards; oracle failures are bucketed by signature, then minimised by vf/shrink.py (ddmin) and saved as plain-data replay files'},
            {'name': 'enumeration-pool', 'path': 'vf/core.py',
             'serves_properties': [p for p in ids if p in CHECKS and 'enumeration' in CHECKS[p]['engine']],
             'kind_free_text': 'complete enumeration of finite sub-domains, sharded over 16 processes'},
            {'name': 'atheris', 'path': 'vf/fuzz_atheris.py',
             'serves_properties': [p for p in ids if p in CHECKS and 'atheris' in CHECKS[p]['engine']],
             'kind_free_text': 'coverage-guided libFuzzer campaigns on the instrumented mistletoe package (thorough tier)'},
        ],
        'checks': checks,
        'not_applicable': [{'property_id': pid, 'reason': NOT_YET[pid]} for pid in ids if pid not in CHECKS],
        'notes': 'All checks are property-based tests / fuzzing with explicit oracles; see DESIGN.md. '
                 'VERIF_SEED selects the Hypothesis seeds; VERIF_REPO (default /repo) selects the tree under test.',
    }
    for pid in ids:
        if pid not in CHECKS and pid not in NOT_YET:
            raise SystemExit('property %s neither claimed nor listed as not applicable' % pid)
    with open(os.path.join(HERE, 'MANIFEST.json'), 'w') as f:
        json.dump(manifest, f, indent=1)
        f.write('\n')
    print('wrote MANIFEST.json: %d checks, %d not_applicable' % (len(checks), len(manifest['not_applicable'])))


if __name__ == '__main__':
    main()
