#!/bin/bash
# tools/run_seeds.sh <tier> <seed>...  — runs every check at each seed with a scratch evidence directory
# (the committed evidence is not touched); prints only the lines that are not "exit=0".
cd "$(dirname "$0")/.." || exit 2
tier="$1"; shift
for s in "$@"; do
    d=$(mktemp -d /tmp/vf-seeds-XXXXXX)
    VERIF_SEED=$s VERIF_EVIDENCE_DIR=$d tools/run_all.sh "$tier" 2>&1 | grep -v "exit=0"
    echo "seed $s done"
    rm -rf "$d"
done
