#!/bin/bash
# tools/ingest_seed.sh <worktree> <seed-id> <property> [checks]   — verify a seeded change made by a sub-agent in a
# scratch worktree (pytest passes with it, demo fails with / passes without), run the checks against it and
# store it under /verif/seeded/<seed-id>/.
set -u
wt="$1"; sid="$2"; prop="$3"; checks="${4:-$prop}"
cd "$(dirname "$0")/.." || exit 2
dest="seeded/$sid"; mkdir -p "$dest"
( cd "$wt" && git diff -- mistletoe > _seed/patch.diff )
cp "$wt/_seed/patch.diff" "$dest/patch.diff"; cp "$wt/_seed/demo.py" "$dest/demo.py"; cp "$wt/_seed/meta.json" "$dest/agent_meta.json" 2>/dev/null
tests=$(cd "$wt" && /venv/bin/python -m pytest -q -p no:cacheprovider 2>&1 | tail -1)
( cd "$wt" && /venv/bin/python _seed/demo.py >/dev/null 2>&1 ); with=$?
# (no git stash: the stash is shared by all worktrees of /repo)
( cd "$wt" && git apply -R _seed/patch.diff && /venv/bin/python _seed/demo.py >/dev/null 2>&1; echo $? > /tmp/.demo_without; git apply _seed/patch.diff )
without=$(cat /tmp/.demo_without)
echo "tests: $tests | demo with change: exit $with | demo without: exit $without"
/venv/bin/python tools/try_patch.py --patch "$dest/patch.diff" --checks "$checks" > "$dest/check_result.json" 2>&1
/venv/bin/python - "$dest" "$sid" "$prop" "$tests" "$with" "$without" "$checks" <<'PY'
import json, sys, os
dest, sid, prop, tests, w, wo, checks = sys.argv[1:8]
raw = open(os.path.join(dest, 'check_result.json')).read()
try:
    res = json.loads(raw[raw.index('['):])[0]
except Exception:
    res = {'error': raw[-500:]}
am = {}
try: am = json.load(open(os.path.join(dest, 'agent_meta.json')))
except Exception: pass
meta = {'seed': sid, 'property': prop, 'summary': am.get('summary'), 'needs': am.get('needs'), 'files_changed': am.get('files_changed'),
        'verified': {'pytest_with_change': tests, 'demo_exit_with_change': int(w), 'demo_exit_without_change': int(wo)},
        'ran': 'tools/try_patch.py --patch seeded/%s/patch.diff --checks %s (quick tier, VERIF_SEED=1, against a scratch copy of /repo)' % (sid, checks),
        'caught_by': res.get('caught_by'), 'missed_by': res.get('missed_by'), 'detail': res.get('detail')}
json.dump(meta, open(os.path.join(dest, 'meta.json'), 'w'), indent=1)
os.remove(os.path.join(dest, 'check_result.json'))
print('caught_by', meta['caught_by'], 'missed_by', meta['missed_by'])
for k, v in (meta['detail'] or {}).items(): print(' ', k, v['exit'], v['first'][:200])
PY
