#!/bin/bash
# Runs every registered quick (or $1=thorough) check and prints one line per property.
cd "$(dirname "$0")/.." || exit 2
tier="${1:-quick}"
rc=0
for p in C01 C02 C03 C04 C05 C06 C07 C08 C09 C10 C11 C12 C13 C14 C15 C16 C17 C18 C19; do
    start=$(date +%s)
    out=$(./check $p --tier "$tier" 2>&1); code=$?
    end=$(date +%s)
    echo "$p exit=$code $((end-start))s $(echo "$out" | grep -E '^OK|^VIOLATION|HARNESS' | head -2 | tr '\n' ' ' | cut -c1-200)"
    [ $code -ne 0 ] && rc=1
done
exit $rc
