# Table read by tools/gen_manifest.py (exec'd).  One check(...) per claimed property;
# NOT_YET[id] = reason for every property not (yet) claimed.

check('C01', 'Hypothesis-driven totality search over text pools x renderer configurations x input forms, complete short-string enumeration, exception allow-list with independent admissibility predicates, wall-clock watchdog',
      'hypothesis-sharded + enumeration-pool + atheris',
      'Random, mutated, generated, pumped (snippets repeated behind unclosed openers) and nested-pump texts (containers deepening line by line, up to ~90 levels) of <= 4 KB go through all 11 renderer configurations with drawn options and the '
      'str / list / file input forms; every string over a 12-symbol alphabet up to length 5 (6-7 thorough) is enumerated. Any exception '
      'outside the three documented refusals, any non-str result and any confirmed time-out is a violation.',
      'Termination is judged against a wall clock (10 s, confirmed by a 30 s re-run); RecursionError is accepted only when a text-derived '
      'nesting bound exceeds 100; absence of crashes is sampled, not proved.',
      'DESIGN.md 5/C01')

check('C02', 'complete enumeration of the vendored spec corpus against expected HTML under the spec normaliser',
      'enumeration-pool',
      'Every one of the 652 normative examples is executed on every run (as str and as list of lines) and compared with the '
      'expected HTML through a port of the spec test driver\'s normaliser; the domain is finite and covered completely.',
      'Trusts the vendored corpus (checksum pinned) and vf/oracle/htmlnorm.py (port of commonmark-spec normalize.py).',
      'DESIGN.md 5/C02')

check('C06', 'exhaustive small-alphabet enumeration + Hypothesis strings against an independent reference model of the spec delimiter algorithm',
      'enumeration-pool + hypothesis-sharded',
      'All strings over {a,space,*,_,.} up to length 8 (11 thorough), {a,*} and {a,_} up to 14 (17), {a,*,_} up to 10 (13) and '
      'random wide-alphabet strings (incl. Unicode symbols, a control, combining and format characters) and long-range strings (an opener and its closer up to 300 unmatched runs apart) are rendered and compared with an executable model written from the spec text; the enumerated '
      'parts are complete over their finite domains, the rest is sampling.',
      'Trusts vf/oracle/emphasis.py (validated at start-up on the >100 eligible spec emphasis examples) and unicodedata.',
      'DESIGN.md 5/C06')

check('C12', 'Hypothesis-generated inputs under four token sets; shape invariants on the object graph, utils.traverse and AST JSON compared with an own walk',
      'hypothesis-sharded',
      'For sampled inputs from all pools, under the Html/Markdown/LaTeX/XWiki20 token sets, the parsed object graph is walked by own code: '
      'acyclic, parent links, documented child kinds, attribute ranges, list start vs first marker; traverse() (plain, include_source, klass, '
      'depth) and the AstRenderer JSON must describe exactly that walk.',
      'Sampling only. The walk trusts .children / Table.header as the definition of the tree.',
      'DESIGN.md 5/C12')

check('C08', 'Hypothesis-generated hostile and pooled inputs x options; strict output scanner, placeholder accounting for raw HTML, skeleton invariance under text neutralisation; exhaustive code-point sweep of the escaping helpers',
      'hypothesis-sharded + enumeration-pool',
      'Output of HtmlRenderer for pooled and payload-bearing inputs under all option combinations is tokenised by a strict own scanner '
      '(vocabulary, nesting, attribute syntax, escaped text); raw HTML is replaced by placeholders that must come out exactly once; the same '
      'tree rendered with neutralised text must give the same tag skeleton. escape_html_text/escape_url are swept over every Unicode scalar value.',
      'Sampling except for the helper sweep (complete for single code points). Trusts vf/oracle/htmlscan.py.',
      'DESIGN.md 5/C08')

check('C15', 'Hypothesis-generated texts supplied in every input form, differential comparison of outputs, real CLI subprocess batches',
      'hypothesis-sharded',
      'Each sampled text is supplied as str (with/without final newline), list / tuple / iterator of lines with and without terminators, '
      'StringIO, real file object, in-process CLI and (batched) a real python -m mistletoe subprocess on 1..8 files; all outputs must be byte-identical; texts with a pipe are evaluated a second time with the parse option Table.interrupt_paragraph toggled, and every form must follow the option; about 1 % of the texts are repeated to 8-66 KB, beyond the buffers through which files and pipes are read; a quarter of the subprocess command lines name a file twice (same, relative or ./ spelling).',
      'Domain: \\n is the only line terminator (the characters at which str.splitlines splits but file iteration does not are excluded); NUL and other control characters are in. Sampling only.',
      'DESIGN.md 5/C15')

check('C18', 'Hypothesis-generated inputs meeting each side condition; differential comparison of contrib renderer output with HtmlRenderer output',
      'hypothesis-sharded',
      'For sampled inputs that do not use the respective extension, Toc/GithubWiki/MathJax/Pygments output must equal HtmlRenderer output '
      'byte for byte under the same options (MathJax minus its script line).',
      'Sampling only; side conditions as stated ([[ .. | .. ]] in this order anywhere in the text; two or more $; a code block in the HtmlRenderer parse).',
      'DESIGN.md 5/C18')

check('C17', 'Hypothesis-generated hostile and pooled inputs; LaTeX output scanner (groups, environments, verbatim regions, escape forms) plus skeleton invariance under text neutralisation',
      'hypothesis-sharded',
      'LaTeXRenderer output for pooled inputs and for snippets whose text, URLs, sources and info strings are rich in LaTeX specials is '
      'scanned by an own state machine (normal / \\verb / lstlisting / URL argument): only the renderer\'s control sequences and escape '
      'forms, balanced groups, nested environments, no bare special; the same tree with neutralised text must give the same event skeleton.',
      'Sampling only. Math spans are masked (by design pass-through). Three recorded findings (image source, code language, '
      '\\end{lstlisting} inside code) are excluded by narrow input classes and announced as KNOWN-FINDING.',
      'DESIGN.md 5/C17')

check('C14', 'Hypothesis-generated paragraphs from a tricky-token vocabulary, filtered by an independent spec-derived inertness predicate; exact-output oracle',
      'hypothesis-sharded',
      'Paragraphs of 1-4 lines assembled from ~190 tricky-but-inert tokens, or from tokens composed freely out of letter runs, digit runs and any ASCII / Unicode punctuation, are kept when an own predicate (block-start patterns per line, '
      'inline triggers over the paragraph, emphasis by the independent model) proves them inert; lines may be indented (continuation lines by four or more columns); about one paragraph in twenty begins with a line that looks like a link reference definition and provably is none; each paragraph is supplied as a string and as the list of its lines; HtmlRenderer output must then be exactly '
      '<p>escaped text</p>.',
      'Sampling only. The predicate is conservative (discards what it cannot prove inert; discard counts are in the evidence).',
      'DESIGN.md 5/C14')

check('C11', 'bounded exhaustive operation histories + Hypothesis-drawn histories + hypothesis.stateful RuleBasedStateMachine, with fault injection at every token-list position; fresh-interpreter baseline as reference model',
      'enumeration-pool + hypothesis-sharded (stateful)',
      'Histories over {use renderer, enter/render/exit, a documented refusal half-way through rendering, parse that raises inside a custom block/span token added by hand at every list position (inside renderers with and without token types of their own), bare '
      'parse, Scheme} are executed in-process; after every step the token lists must equal the defaults and a battery of 29 probe documents (ten of them put one string into every syntactic context that processes it, to expose state keyed by content) '
      '(HtmlRenderer output + dump of a bare parse) and the operation\'s own output must equal reference values, each computed in its own pristine process. '
      'All length-2 histories over the full alphabet and all length-4 (5 thorough) histories over 8 state-touching operations are enumerated.',
      'Leaks are visible only through the probe battery and token lists; longer histories are sampled, not enumerated.',
      'DESIGN.md 5/C11')

check('C16', 'complete pair table of synthetic custom span tokens (Allen relations x precedence x flags x registration order) + Hypothesis-generated token-type sets and texts; tiling invariants and statement-derived outcome table',
      'enumeration-pool + hypothesis-sharded',
      'All 10400 configurations of two custom token types are parsed at top level and again inside the parse group of a third custom token, '
      'and checked against an outcome table derived from the statement (asserted in 6800 unambiguous cells) and against tiling / order / '
      'containment / confinement invariants (context left normally, by an exception, and inside an enclosing renderer context); a token with three-character delimiters is run against every span inside it (4500 cases: nest in the parse group, otherwise precedence); a custom token whose only candidate starts at an escaped character is run against the built-in escape sequence (90 cases); random sets of up to 4 '
      'regex-based custom types over generated texts are checked against the invariants.',
      'Outcome is not asserted where the statement is silent (equal starts, container that does not parse inner). One recorded finding (match inside a closing delimiter) is excluded by its narrow class.',
      'DESIGN.md 5/C16')

check('C04', 'Hypothesis-generated texts; metamorphic relation between the parse of a text and of its block-quote / list-item embedding',
      'hypothesis-sharded',
      'For sampled texts (tabs only as content, directly after a letter) the own dump of Document(embed(t)) must equal the dump of Document(t) wrapped in one Quote, resp. one '
      'single-item List whose leader, content offset and start are as written; link definitions must be unchanged. Marker spelling '
      '(>, "> ", 0-3 spaces; -, +, *, N., N) with 1-4 spaces) is drawn per case.',
      'Sampling only; line numbers set aside (C13).',
      'DESIGN.md 5/C04')

check('C05', 'Hypothesis-generated pairs of texts; metamorphic relation AST(A + blank + B) = AST(A) ++ shifted AST(B)',
      'hypothesis-sharded',
      'For sampled pairs meeting the side conditions the own dump (all scalar attributes and line numbers) of the combined document must be '
      'the concatenation of the separate dumps with B\'s line numbers shifted; some pairs share a line that is paragraph text in A and interrupts a paragraph in B.',
      'Sampling only; side conditions evaluated on the separate parses.',
      'DESIGN.md 5/C05')

check('C03', 'Hypothesis choice tapes decoded into model trees of CommonMark/GFM constructs with free spelling (plus a small generated model of multi-line code spans); oracle = HTML written directly from the tree, compared under the spec normaliser',
      'hypothesis-sharded',
      'Each tape is decoded into a tree (all block and inline constructs of the statement, depth <= 4, <= 40 blocks) whose spelling choices '
      '(indentation, markers incl. leading zeros and per-item indentation, padding, tabs at column 0, fences, closing #, > with/without space, lazy lines, optional and whitespace-only blank lines, table pipes and padding, multi-line titles) are drawn as well; paragraphs of raw delimiter runs are read by the emphasis model; the '
      'Markdown written from it must render to the HTML written from the tree by independent code. A curated list of hand-derived pairs '
      '(regressions of repaired defects) is enumerated too, a second generated part writes code spans whose content begins, ends and is divided by spaces and line endings (plain, quoted, in list items, lazy lines) against CommonMark 6.1 computed directly, and a complete table of HTML block tag names (the 62 of the specification and 20 others x 8 spellings after a paragraph line).',
      'Sound only as far as the writer is (it writes only spellings the specification makes unambiguous; see DESIGN.md 3/G4). Seven recorded '
      'findings are excluded by writer switches and announced as KNOWN-FINDING with hand-derived witnesses.',
      'DESIGN.md 5/C03')

check('C13', 'Hypothesis choice tapes decoded into G4 documents whose writer records the source line of every block; parallel walk of model and token tree',
      'hypothesis-sharded',
      'The generator knows the 1-based line on which it wrote each block (through block-quote and list prefixes, lazy lines, blank-first '
      'items, leading blank lines, definitions between blocks, table rows and cells); every block token of the parse must report exactly that line; under the Markdown renderer\'s token set the blank-line and definition-group tokens must sit on lines of that kind, in increasing order.',
      'Sampling only; structurally different parses are left to C03 and counted as skipped.',
      'DESIGN.md 5/C13')

check('C07', 'Hypothesis choice tapes decoded into G4 documents in reference mode (definitions at drawn placements, re-spelled labels, all reference forms) and into paragraphs ending in a reference followed by a non-tail; oracle = tree-derived HTML with a model resolver and the model definition map',
      'hypothesis-sharded',
      'Labels get 1-3 definitions (case / whitespace / Unicode-fold variants) placed at block boundaries of the document, block quotes and '
      'loose list items, before or after their uses; uses appear as full, collapsed and shortcut links and images in paragraphs, headings '
      'and table cells, plus undefined labels. The rendered HTML must equal the HTML written from the tree by a model resolver (first '
      'definition in document order), and Document.footnotes must equal the model map. A second generated part (own small model) ends every paragraph in a reference - any form, link or image, defined or undefined label - directly followed by text that is not an inline-link tail, or by a valid one (which wins for shortcut references).',
      'Sampling only; definitions in tight list items are not generated.',
      'DESIGN.md 5/C07')

check('C19', 'Hypothesis choice tapes decoded into G4 documents with outline-shaped headings x TocRenderer options; expected outline computed from the model',
      'hypothesis-sharded',
      'Headings (ATX and setext, top level and inside containers; titles of words, punctuation, HTML-significant characters, character references, escapes and code spans that look like markup) form an outline; depth, '
      'omit_title, filter predicates and the shallowest level are drawn; the walk of renderer.toc must list exactly the qualifying headings '
      'of the model, in order, nested by level relative to the shallowest qualifying level.',
      'Sampling only; cases without a qualifying heading or whose qualifying headings are not an outline are skipped and counted.',
      'DESIGN.md 5/C19')

check('C09', 'round-trip oracle (parse -> MarkdownRenderer -> parse) over Hypothesis-generated G4 documents in free and normal-form spelling and the complete spec corpus, x normalize_whitespace',
      'hypothesis-sharded + enumeration-pool',
      'For each text: HtmlRenderer output and link definitions of the re-rendered Markdown must equal those of the source, a second '
      'rendering must reproduce the first byte for byte, and documents written in the renderer\'s normal form must be reproduced byte for '
      'byte. The 652 spec examples are enumerated completely under both option values; the examples affected by recorded findings are '
      'listed one by one, so a new failing example is a violation.',
      'Generated domain excludes the input classes of the recorded findings (character references, escapes in destinations/titles, empty '
      'list items, empty ATX heading with closing sequence). Sampling except for the corpus part.',
      'DESIGN.md 5/C09')

check('C10', 'Hypothesis-generated G4 documents over a reflow-safe vocabulary x line length L; metamorphic oracles: whitespace-normalised HTML and definitions unchanged, unbreakable blocks unchanged, line-length rule, idempotence',
      'hypothesis-sharded + enumeration-pool',
      'Each generated document (containers to depth 4, emphasis, code spans, links, images, hard breaks, definitions) is reflowed with a '
      'drawn L in 1..120, with normalize_whitespace on in a third of the cases; the result must parse to the same whitespace-normalised HTML and definitions, leave code / HTML blocks, tables and '
      'ATX headings untouched, have no breakable space on any line longer than L, and be a fixed point of the same reflow. Hand-written '
      'documents are swept over every L in 1..60.',
      'Domain excludes words / constructs that become block markers at a line start, character references, code spans with edge or '
      'double spaces (recorded findings). Titles and image descriptions are compared whitespace-collapsed (the renderer wraps them by design).',
      'DESIGN.md 5/C10')

_PENDING = 'check not built yet in this revision (work in progress; technique applies, see DESIGN.md section 5)'
for _p in []:
    NOT_YET[_p] = _PENDING
