# Table read by tools/gen_manifest.py (exec'd).  One check(...) per claimed property;
# NOT_YET[id] = reason for every property not (yet) claimed.

check('C02', 'complete enumeration of the vendored spec corpus against expected HTML under the spec normaliser',
      'enumeration-pool',
      'Every one of the 652 normative examples is executed on every run (as str and as list of lines) and compared with the '
      'expected HTML through a port of the spec test driver\'s normaliser; the domain is finite and covered completely.',
      'Trusts the vendored corpus (checksum pinned) and vf/oracle/htmlnorm.py (port of commonmark-spec normalize.py).',
      'DESIGN.md 5/C02')

_PENDING = 'check not built yet in this revision (work in progress; technique applies, see DESIGN.md section 5)'
for _p in ['C01', 'C03', 'C04', 'C05', 'C06', 'C07', 'C08', 'C09', 'C10', 'C11', 'C12', 'C13', 'C14', 'C15',
           'C16', 'C17', 'C18', 'C19']:
    NOT_YET[_p] = _PENDING
