#!/usr/bin/env python3
"""Validate MANIFEST.json and evidence/*.json against the schemas (run with python3-vt)."""
import glob, json, sys
import jsonschema
ok = True
ms = json.load(open('/root/.vp/MANIFEST.schema.json')); es = json.load(open('/root/.vp/EVIDENCE.schema.json'))
try:
    jsonschema.validate(json.load(open('MANIFEST.json')), ms); print('MANIFEST ok')
except Exception as e:
    ok = False; print('MANIFEST INVALID', e)
for f in sorted(glob.glob('evidence/*.json')):
    try:
        jsonschema.validate(json.load(open(f)), es); print(f, 'ok')
    except Exception as e:
        ok = False; print(f, 'INVALID', str(e)[:300])
sys.exit(0 if ok else 1)
