#!/bin/bash
# tools/repo_commit.sh "<commit message>" — commits the working-tree change of /repo only if the pinned suite still passes.
cd /repo || exit 2
out=$(/venv/bin/python -m pytest -q -p no:cacheprovider 2>&1 | tail -1)
echo "$out"
case "$out" in
  "333 passed"*) git commit -qam "$1" && git log --oneline | head -1 ;;
  *) echo "NOT COMMITTED: the pinned suite does not pass"; exit 1 ;;
esac
