"""Greedy structural shrinker over JSON-like cases (ddmin on strings, byte tapes and
lists; integers towards zero).  Used instead of Hypothesis' shrinker so that
every failing signature gets minimised under a wall-clock budget and so that the
minimised value is exactly the plain-data case the replay file stores."""
import copy
import time


def _paths(v, prefix=()):
    if isinstance(v, dict):
        for k in sorted(v):
            yield from _paths(v[k], prefix + (k,))
    elif isinstance(v, list):
        yield prefix, 'list'
        for i, x in enumerate(v):
            yield from _paths(x, prefix + (i,))
    elif isinstance(v, str):
        yield prefix, 'str'
    elif isinstance(v, bool):
        yield prefix, 'bool'
    elif isinstance(v, int):
        yield prefix, 'int'


def _get(v, path):
    for p in path:
        v = v[p]
    return v


def _set(v, path, x):
    v = copy.deepcopy(v)
    if not path:
        return x
    t = v
    for p in path[:-1]:
        t = t[p]
    t[path[-1]] = x
    return v


class _Budget(Exception):
    pass


def _ddmin_seq(seq, test, join):
    """Remove chunks of decreasing size while test(join(seq)) stays true."""
    seq = list(seq)
    chunk = len(seq) // 2
    while chunk >= 1:
        i = 0
        while i < len(seq):
            cand = seq[:i] + seq[i + chunk:]
            if test(join(cand)):
                seq = cand
            else:
                i += chunk
        chunk //= 2
    changed = True
    while changed:
        changed = False
        i = 0
        while i < len(seq):
            cand = seq[:i] + seq[i + 1:]
            if test(join(cand)):
                seq = cand
                changed = True
            else:
                i += 1
    return seq


def shrink(case, pred, budget_s=25.0):
    """Returns (smaller_case, finished).  pred(case) -> bool must be true for the
    input case; it is re-evaluated on every candidate."""
    deadline = time.time() + budget_s
    calls = [0]

    def timed(c):
        if time.time() > deadline:
            raise _Budget()
        calls[0] += 1
        try:
            return bool(pred(c))
        except _Budget:
            raise
        except Exception:
            return False

    best = copy.deepcopy(case)
    try:
        if not timed(best):
            return case, False
        changed = True
        rounds = 0
        while changed and rounds < 8:
            changed = False
            rounds += 1
            for path, kind in list(_paths(best)):
                try:
                    cur = _get(best, path)
                except (KeyError, IndexError, TypeError):
                    continue
                if kind == 'str':
                    key = path[-1] if path else ''
                    if isinstance(key, str) and key.endswith('tape'):
                        new = _shrink_tape(best, path, cur, timed)
                    else:
                        new = _shrink_str(best, path, cur, timed)
                    if new != cur:
                        best = _set(best, path, new)
                        changed = True
                elif kind == 'int':
                    for cand in _int_cands(cur):
                        c2 = _set(best, path, cand)
                        if timed(c2):
                            best = c2
                            changed = True
                            break
                elif kind == 'bool':
                    if cur:
                        c2 = _set(best, path, False)
                        if timed(c2):
                            best = c2
                            changed = True
                elif kind == 'list':
                    if cur and all(not isinstance(x, (dict, list)) or True for x in cur):
                        new = _ddmin_seq(cur, lambda x: timed(_set(best, path, x)), list)
                        if len(new) < len(cur):
                            best = _set(best, path, new)
                            changed = True
        return best, True
    except _Budget:
        return best, False


def _int_cands(v):
    if v == 0:
        return []
    out = [0]
    if abs(v) > 1:
        out += [1 if v > 0 else -1, v // 2]
    if abs(v) > 2:
        out.append(v - 1 if v > 0 else v + 1)
    return out


def _shrink_str(best, path, s, timed):
    def test(x):
        return timed(_set(best, path, x))
    if s == '':
        return s
    if test(''):
        return ''
    # lines first, then characters
    if '\n' in s:
        lines = s.split('\n')
        lines = _ddmin_seq(lines, test, '\n'.join)
        s = '\n'.join(lines)
    if len(s) <= 400:
        s = ''.join(_ddmin_seq(list(s), test, ''.join))
        # normalise characters towards 'a' / space where it keeps the failure
        for i, ch in enumerate(s):
            if ch not in 'a \n':
                for rep in ('a',):
                    cand = s[:i] + rep + s[i + 1:]
                    if test(cand):
                        s = cand
                        break
    return s


def _shrink_tape(best, path, hx, timed):
    try:
        b = list(bytes.fromhex(hx))
    except ValueError:
        return hx

    def join(x):
        return bytes(x).hex()

    def test(x):
        return timed(_set(best, path, x))
    b = _ddmin_seq(b, test, join)
    # zero, then halve, each byte
    for i in range(len(b)):
        if b[i] == 0:
            continue
        for cand in (0, b[i] // 2, b[i] - 1):
            if cand == b[i]:
                continue
            c2 = b[:i] + [cand] + b[i + 1:]
            if test(join(c2)):
                b = c2
                break
    # drop trailing zeros (an exhausted tape reads as zeros)
    while b and b[-1] == 0 and test(join(b[:-1])):
        b = b[:-1]
    return join(b)
