"""./check <ID> --tier quick|thorough [--replay FILE]

Exit codes: 0 property held on everything explored (KNOWN-FINDING lines allowed);
1 at least one VIOLATION line; 2 harness error (never a violation)."""
import argparse
import os
import sys
import traceback


def main(argv=None):
    ap = argparse.ArgumentParser()
    ap.add_argument('prop')
    ap.add_argument('--tier', default=os.environ.get('VERIF_TIER', 'quick'), choices=['quick', 'thorough'])
    ap.add_argument('--replay')
    args = ap.parse_args(argv)
    try:
        from . import env, core
        prop_id = args.prop.upper()
        if args.replay:
            env.assert_repo_import()
            return core.replay_file(prop_id, args.replay)
        return core.run_check(prop_id, args.tier, env.seed())
    except SystemExit:
        raise
    except BaseException:
        traceback.print_exc()
        print('HARNESS-ERROR (exit 2)', file=sys.stderr)
        return 2


if __name__ == '__main__':
    sys.exit(main())
