"""O3: strict scanner for HtmlRenderer output (deliberately not HTMLParser, which
forgives).  scan(html) returns (events, problems):
  events   [('open', name, (attr names...)) | ('close', name) | ('void', name, (attr names...))]
  problems [(code, detail)]  -- empty iff the output is well-formed in the sense of C08.
Placeholders (private-use characters U+E000..U+F8FF) are allowed in text and in
attribute values and reported in `placeholders` with their position kind."""
import re

VOCAB = {
    'p': (), 'h1': (), 'h2': (), 'h3': (), 'h4': (), 'h5': (), 'h6': (), 'blockquote': (), 'pre': (),
    'code': ('class',), 'ul': (), 'ol': ('start',), 'li': (), 'hr': (), 'br': (), 'em': (), 'strong': (), 'del': (),
    'a': ('href', 'title'), 'img': ('src', 'alt', 'title'), 'table': (), 'thead': (), 'tbody': (), 'tr': (),
    'th': ('align',), 'td': ('align',),
}
VOID = {'hr', 'br', 'img'}
ESCAPES = ('&amp;', '&lt;', '&gt;', '&quot;', '&#x27;')

_TAG = re.compile(r'<(/?)([A-Za-z][A-Za-z0-9]*)((?: [A-Za-z][A-Za-z0-9-]*="[^"]*")*)( /)?>')
_ATTR = re.compile(r' ([A-Za-z][A-Za-z0-9-]*)="([^"]*)"')


def _check_amp(s, where, problems):
    i = s.find('&')
    while i != -1:
        if not s.startswith(ESCAPES, i):
            problems.append(('bare-ampersand-in-' + where, s[max(0, i - 10):i + 12]))
            return
        i = s.find('&', i + 1)


def scan(out, check_attr_amp=False):
    events = []
    problems = []
    placeholders = []
    stack = []
    pos = 0
    n = len(out)
    while pos < n:
        lt = out.find('<', pos)
        text = out[pos:lt] if lt != -1 else out[pos:]
        if text:
            if '>' in text:
                problems.append(('bare-gt-in-text', text[max(0, text.find('>') - 15):text.find('>') + 15]))
            _check_amp(text, 'text', problems)
            for ch in text:
                if '\ue000' <= ch <= '\uf8ff':
                    placeholders.append((ch, 'text'))
        if lt == -1:
            break
        m = _TAG.match(out, lt)
        if m is None:
            problems.append(('bad-tag', out[lt:lt + 60]))
            pos = lt + 1
            continue
        closing, name, attrs, selfclose = m.group(1), m.group(2), m.group(3), m.group(4)
        pos = m.end()
        if name not in VOCAB:
            problems.append(('tag-outside-vocabulary', m.group(0)[:60]))
            continue
        attr_list = _ATTR.findall(attrs)
        names = tuple(a for a, _ in attr_list)
        for a, v in attr_list:
            if a not in VOCAB[name]:
                problems.append(('attribute-outside-vocabulary', '%s %s' % (name, a)))
            if '<' in v or '>' in v:
                problems.append(('angle-bracket-in-attribute', '%s %s=%r' % (name, a, v[:60])))
            if check_attr_amp:
                _check_amp(v, 'attribute', problems)
            for ch in v:
                if '\ue000' <= ch <= '\uf8ff':
                    placeholders.append((ch, 'attribute'))
        if len(set(names)) != len(names):
            problems.append(('duplicate-attribute', m.group(0)[:80]))
        if closing:
            if attrs or selfclose:
                problems.append(('bad-closing-tag', m.group(0)[:60]))
            if name in VOID:
                problems.append(('closing-void-tag', name))
            elif not stack or stack[-1] != name:
                problems.append(('nesting', 'closing %s while open: %s' % (name, '/'.join(stack[-4:]))))
                if name in stack:
                    while stack and stack[-1] != name:
                        stack.pop()
                    stack.pop()
            else:
                stack.pop()
            events.append(('close', name))
        elif name in VOID:
            if not selfclose:
                problems.append(('void-not-self-closed', m.group(0)[:60]))
            events.append(('void', name, names))
        else:
            if selfclose:
                problems.append(('self-closed-non-void', m.group(0)[:60]))
            stack.append(name)
            events.append(('open', name, names))
    if stack:
        problems.append(('nesting', 'unclosed at end: %s' % '/'.join(stack[-6:])))
    return events, problems, placeholders
