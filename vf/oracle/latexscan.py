"""O4: scanner for LaTeXRenderer output.

scan(tex) -> (events, problems).  States: normal text, \\verb<d>...<d>, the
lstlisting environment (verbatim up to the first \\end{lstlisting}, as TeX reads
it), URL arguments of \\url / first argument of \\href.  In normal state a
backslash must start one of the renderer's own control sequences or one of its
escape forms; none of $ # & _ % ^ may appear bare (except the renderer's own
' & ' column separator inside tabular); braces must balance and \\begin/\\end
must nest.  Private-use characters (math placeholders) are plain text."""
import re

CONTROL_WORDS = {'documentclass', 'usepackage', 'begin', 'end', 'textbf', 'textit', 'verb', 'sout', 'includegraphics',
                 'href', 'url', 'section', 'subsection', 'subsubsection', 'item', 'hline', 'hrulefill', 'newline',
                 'textbackslash'}
ENVIRONMENTS = {'document', 'displayquote', 'lstlisting', 'itemize', 'enumerate', 'tabular'}
ESCAPED_SYMBOLS = set('$#{}&_%')
_WORD = re.compile(r'[A-Za-z]+')
_ENVNAME = re.compile(r'\{([A-Za-z]*)\}')


def scan(tex):
    events = []
    problems = []
    groups = []          # stack of ('{', kind)
    envs = []
    i, n = 0, len(tex)

    def problem(code, at):
        problems.append((code, tex[max(0, at - 25):at + 35]))

    while i < n:
        c = tex[i]
        if c == '\\':
            nxt = tex[i + 1] if i + 1 < n else ''
            if nxt in ESCAPED_SYMBOLS:
                i += 2
                continue
            if nxt == '^':
                if tex.startswith('\\^{}', i):
                    i += 4
                else:
                    problem('bad-caret-escape', i)
                    i += 2
                continue
            if nxt == '\\':
                # row terminator, only written by the renderer inside tabular
                if 'tabular' not in envs:
                    problem('double-backslash-outside-table', i)
                events.append(('rowend',))
                i += 2
                continue
            m = _WORD.match(tex, i + 1)
            if not m:
                problem('backslash-before-%r' % nxt, i)
                i += 2
                continue
            word = m.group(0)
            j = m.end()
            if word not in CONTROL_WORDS:
                problem('control-word-outside-vocabulary:' + word[:20], i)
                i = j
                continue
            if word == 'verb':
                if j >= n:
                    problem('verb-without-delimiter', i)
                    break
                d = tex[j]
                k = tex.find(d, j + 1)
                if k == -1 or '\n' in tex[j + 1:k]:
                    problem('verb-unterminated', i)
                    i = j + 1
                    continue
                events.append(('verb',))
                i = k + 1
                continue
            if word in ('begin', 'end'):
                m2 = _ENVNAME.match(tex, j)
                if not m2 or m2.group(1) not in ENVIRONMENTS:
                    problem('bad-environment', i)
                    i = j
                    continue
                name = m2.group(1)
                j = m2.end()
                if word == 'begin':
                    envs.append(name)
                    events.append(('begin', name))
                    if name == 'lstlisting':
                        # optional argument, then verbatim until the first \end{lstlisting}
                        if tex.startswith('[', j):
                            k = tex.find(']', j)
                            nl = tex.find('\n', j)
                            if k == -1 or (nl != -1 and nl < k):
                                problem('lstlisting-option-unterminated', j)
                                k = nl if nl != -1 else j
                            opt = tex[j + 1:k]
                            if re.search(r'[\\{}%#$&^_\[\]]', opt):
                                problem('special-character-in-lstlisting-option', j)
                            if k + 1 < n and tex[k + 1] != '\n':
                                problem('text-after-lstlisting-option', k)
                            j = k + 1
                        end = tex.find('\\end{lstlisting}', j)
                        if end == -1:
                            problem('lstlisting-unterminated', j)
                            i = n
                            continue
                        i = end
                        continue
                else:
                    if not envs or envs[-1] != name:
                        problem('environment-nesting:end-%s-in-%s' % (name, envs[-1] if envs else 'none'), i)
                        if name in envs:
                            while envs and envs[-1] != name:
                                envs.pop()
                            envs.pop()
                    else:
                        envs.pop()
                    events.append(('end', name))
                i = j
                continue
            if word == 'usepackage' and tex.startswith('[', j):
                k = tex.find(']', j)
                j = k + 1 if k != -1 else j
            if word in ('url', 'href', 'includegraphics'):
                # first argument is read specially by hyperref / graphicx
                if not tex.startswith('{', j):
                    problem('missing-argument', i)
                    i = j
                    continue
                k = j + 1
                ok = True
                while k < n and tex[k] != '}':
                    ch = tex[k]
                    if ch == '\\':
                        if k + 1 < n and tex[k + 1] in '%#':
                            k += 2
                            continue
                        ok = False
                        break
                    if ch in '{%#$\n' or ch == '^':
                        ok = False
                        break
                    k += 1
                if not ok or k >= n:
                    problem('special-character-in-%s-argument' % word, k)
                    i = j
                    continue
                events.append((word,))
                i = k + 1
                continue
            if word == 'textbackslash':
                if tex.startswith('{}', j):
                    j += 2
                else:
                    problem('textbackslash-without-group', i)
                i = j
                continue
            events.append(('cs', word))
            i = j
            continue
        if c == '{':
            groups.append(len(envs))
            events.append(('{',))
        elif c == '}':
            if not groups:
                problem('unbalanced-close-brace', i)
            else:
                depth = groups.pop()
                if depth != len(envs):
                    problem('group-crosses-environment', i)
            events.append(('}',))
        elif c == '&':
            if 'tabular' in envs and tex[i - 1:i + 2] == ' & ':
                events.append(('&',))
            else:
                problem('bare-&', i)
        elif c in '$#_%^':
            problem('bare-' + c, i)
        i += 1
    if groups:
        problems.append(('unbalanced-open-brace', '%d open at end' % len(groups)))
    if envs:
        problems.append(('environment-unclosed', '/'.join(envs)))
    return events, problems
