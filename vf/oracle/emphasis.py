"""O6: independent executable model of the CommonMark 0.30 emphasis algorithm
(spec section 6.2 and the appendix "An algorithm for parsing nested emphasis and
links"), restricted to texts without links, code spans, escapes, entities or raw
HTML.  Written from the specification text only; character classes come from
unicodedata, never from mistletoe's tables.

model(text) -> HTML fragment with <em>/<strong>, text escaped (& < > only).
runs(text)  -> [(char, length, can_open, can_close), ...] for non-triviality rules.
"""
import unicodedata

_ASCII_PUNCT = frozenset('!"#$%&\'()*+,-./:;<=>?@[\\]^_`{|}~')


def is_ws(c):
    # "Unicode whitespace character": any code point in Zs, or tab, LF, FF, CR.
    return c in '\t\n\x0c\r' or unicodedata.category(c) == 'Zs'


def is_punct(c):
    # "Unicode punctuation character" (0.30): ASCII punctuation or category P*.
    return c in _ASCII_PUNCT or unicodedata.category(c).startswith('P')


class _Node:
    __slots__ = ('kind', 'text', 'ch', 'n', 'orig', 'open', 'close', 'active', 'strong', 'children')

    def __init__(self, kind):
        self.kind = kind
        self.active = True


def _scan(text):
    nodes = []
    i, n = 0, len(text)
    while i < n:
        c = text[i]
        if c == '*' or c == '_':
            j = i
            while j < n and text[j] == c:
                j += 1
            # beginning and end of line count as Unicode whitespace
            before = text[i - 1] if i > 0 else '\n'
            after = text[j] if j < n else '\n'
            left = (not is_ws(after)) and (not is_punct(after) or is_ws(before) or is_punct(before))
            right = (not is_ws(before)) and (not is_punct(before) or is_ws(after) or is_punct(after))
            d = _Node('delim')
            d.ch = c
            d.n = d.orig = j - i
            if c == '*':
                d.open, d.close = left, right
            else:
                d.open = left and (not right or is_punct(before))
                d.close = right and (not left or is_punct(after))
            nodes.append(d)
            i = j
        else:
            j = i
            while j < n and text[j] not in '*_':
                j += 1
            t = _Node('text')
            t.text = text[i:j]
            nodes.append(t)
            i = j
    return nodes


def runs(text):
    return [(d.ch, d.orig, d.open, d.close) for d in _scan(text) if d.kind == 'delim']


_START = _Node('start')


def model(text):
    nodes = _scan(text)
    bottom = {}   # (char, closer can open, closer original length % 3) -> node below which not to look

    def next_closer(start):
        for k in range(start, len(nodes)):
            x = nodes[k]
            if x.kind == 'delim' and x.active and x.close:
                return k
        return None

    k = next_closer(0)
    while k is not None:
        closer = nodes[k]
        key = (closer.ch, closer.open, closer.orig % 3)
        bot = bottom.get(key)
        found = None
        m = k - 1
        while m >= 0:
            x = nodes[m]
            if x is bot:
                break
            if x.kind == 'delim' and x.active and x.open and x.ch == closer.ch:
                # rule of three, on the lengths of the original runs
                odd = ((x.close or closer.open) and (x.orig + closer.orig) % 3 == 0
                       and not (x.orig % 3 == 0 and closer.orig % 3 == 0))
                if not odd:
                    found = m
                    break
            m -= 1
        if found is not None:
            opener = nodes[found]
            strong = opener.n >= 2 and closer.n >= 2
            use = 2 if strong else 1
            inner = nodes[found + 1:k]
            for x in inner:
                if x.kind == 'delim':
                    x.active = False      # delimiters in between become literal text
            em = _Node('em')
            em.strong = strong
            em.children = inner
            opener.n -= use
            closer.n -= use
            new = nodes[:found]
            if opener.n > 0:
                new.append(opener)
            else:
                opener.active = False
            new.append(em)
            if closer.n > 0:
                resume = len(new)
                new.append(closer)
            else:
                closer.active = False
                resume = len(new)
            new.extend(nodes[k + 1:])
            nodes[:] = new
            k = next_closer(resume)
        else:
            bottom[key] = nodes[k - 1] if k >= 1 else _START
            if not closer.open:
                closer.active = False
            k = next_closer(k + 1)

    def esc(s):
        return s.replace('&', '&amp;').replace('<', '&lt;').replace('>', '&gt;')

    def ser(xs):
        out = []
        for x in xs:
            if x.kind == 'text':
                out.append(esc(x.text))
            elif x.kind == 'delim':
                out.append(x.ch * x.n)
            else:
                tag = 'strong' if x.strong else 'em'
                out.append('<%s>%s</%s>' % (tag, ser(x.children), tag))
        return ''.join(out)

    return ser(nodes)


def has_emphasis(text):
    """True iff the model finds at least one emphasis/strong span (used by C14)."""
    return '<em>' in model(text) or '<strong>' in model(text)
