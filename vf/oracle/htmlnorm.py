"""O1: HTML normaliser — a Python 3 port of commonmark-spec/test/normalize.py,
the comparison the specification's own test driver uses."""
import html
import re
import urllib.parse
from html.entities import name2codepoint
from html.parser import HTMLParser

_ws = re.compile(r'\s+')

_BLOCK = frozenset([
    'article', 'header', 'aside', 'hgroup', 'blockquote', 'hr', 'iframe', 'body', 'li', 'map',
    'button', 'object', 'canvas', 'ol', 'caption', 'output', 'col', 'p', 'colgroup', 'pre', 'dd',
    'progress', 'div', 'section', 'dl', 'table', 'td', 'dt', 'tbody', 'embed', 'textarea',
    'fieldset', 'tfoot', 'figcaption', 'th', 'figure', 'thead', 'footer', 'tr', 'form', 'ul',
    'h1', 'h2', 'h3', 'h4', 'h5', 'h6', 'video', 'script', 'style'])


class _P(HTMLParser):
    def __init__(self):
        HTMLParser.__init__(self, convert_charrefs=False)
        self.last = 'starttag'
        self.in_pre = False
        self.output = ''
        self.last_tag = ''

    def handle_data(self, data):
        after_tag = self.last in ('endtag', 'starttag')
        after_block_tag = after_tag and self.last_tag in _BLOCK
        if after_tag and self.last_tag == 'br':
            data = data.lstrip('\n')
        if not self.in_pre:
            data = _ws.sub(' ', data)
        if after_block_tag and not self.in_pre:
            if self.last == 'starttag':
                data = data.lstrip()
            elif self.last == 'endtag':
                data = data.strip()
        self.output += data
        self.last = 'data'

    def handle_endtag(self, tag):
        if tag == 'pre':
            self.in_pre = False
        elif tag in _BLOCK:
            self.output = self.output.rstrip()
        self.output += '</' + tag + '>'
        self.last_tag = tag
        self.last = 'endtag'

    def handle_starttag(self, tag, attrs):
        if tag == 'pre':
            self.in_pre = True
        if tag in _BLOCK:
            self.output = self.output.rstrip()
        self.output += '<' + tag
        if attrs:
            attrs.sort()
            for (k, v) in attrs:
                self.output += ' ' + k
                if k in ('href', 'src'):
                    self.output += '="' + urllib.parse.quote(urllib.parse.unquote(v or ''), safe='/') + '"'
                elif v is not None:
                    self.output += '="' + html.escape(v, quote=True) + '"'
        self.output += '>'
        self.last_tag = tag
        self.last = 'starttag'

    def handle_startendtag(self, tag, attrs):
        self.handle_starttag(tag, attrs)
        self.last_tag = tag
        self.last = 'endtag'

    def handle_comment(self, data):
        self.output += '<!--' + data + '-->'
        self.last = 'comment'

    def handle_decl(self, data):
        self.output += '<!' + data + '>'
        self.last = 'decl'

    def unknown_decl(self, data):
        self.output += '<!' + data + '>'
        self.last = 'decl'

    def handle_pi(self, data):
        self.output += '<?' + data + '>'
        self.last = 'pi'

    def handle_entityref(self, name):
        try:
            c = chr(name2codepoint[name])
        except KeyError:
            c = None
        self.output_char(c, '&' + name + ';')
        self.last = 'ref'

    def handle_charref(self, name):
        try:
            if name.startswith(('x', 'X')):
                c = chr(int(name[1:], 16))
            else:
                c = chr(int(name))
        except (ValueError, OverflowError):
            c = None
        self.output_char(c, '&' + name + ';')
        self.last = 'ref'

    def output_char(self, c, fallback):
        if c == '<':
            self.output += '&lt;'
        elif c == '>':
            self.output += '&gt;'
        elif c == '&':
            self.output += '&amp;'
        elif c == '"':
            self.output += '&quot;'
        elif c is None:
            self.output += fallback
        else:
            self.output += c


def normalize(s):
    p = _P()
    p.feed(s)
    p.close()
    return p.output


def normalize_ws(s):
    """normalize() and additionally collapse every ASCII-whitespace run in text
    outside <pre> (used by the reflow property, where soft breaks may move)."""
    out = normalize(s)
    parts = re.split(r'(<pre>.*?</pre>)', out, flags=re.S)
    for i in range(0, len(parts), 2):
        parts[i] = re.sub(r'[ \t\n]+', ' ', parts[i])
        # titles and image descriptions are wrapped like text (the renderer's documented behaviour)
        parts[i] = re.sub(r' (title|alt)="([^"]*)"', lambda m: ' %s="%s"' % (m.group(1), re.sub(r'\s+', ' ', m.group(2))), parts[i])
        parts[i] = re.sub(r' ?(</?(?:p|li|h[1-6]|blockquote|ul|ol|table|thead|tbody|tr|th|td|hr|br)\b[^>]*>) ?', r'\1', parts[i])
    return ''.join(parts)
