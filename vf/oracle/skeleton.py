"""O5 support: in-place rewriting of the text-bearing fields of a token tree.

neutralise(doc): every character that came from document text is replaced by the
letter 'x' (whitespace kept), so that a second rendering of the same tree shows
which output structure comes from the renderer and which from the text.
mask_raw_html(doc): raw HTML (HtmlBlock / HtmlSpan) content is replaced by
single private-use characters, one per token."""


def _walk(doc):
    stack = [doc]
    while stack:
        t = stack.pop()
        yield t
        ch = t.children
        if ch:
            stack.extend(ch)
        hdr = vars(t).get('header')
        if hdr is not None:
            stack.append(hdr)


def _neutral(s):
    return ''.join(c if c in ' \t\n' else 'x' for c in s)


TEXT_ATTRS = ('target', 'title', 'src', 'language')


def neutralise(doc, keep=()):
    for t in _walk(doc):
        name = type(t).__name__
        if name in keep:
            continue
        d = vars(t)
        if name in ('RawText', 'Math', 'HtmlSpan', 'XWikiBlockMacroStart', 'XWikiBlockMacroEnd') and isinstance(d.get('content'), str):
            if not _is_placeholder(t.content):
                t.content = _neutral(t.content)
        for a in TEXT_ATTRS:
            v = d.get(a)
            if isinstance(v, str) and v:
                setattr(t, a, _neutral(v).replace(' ', 'x').replace('\n', 'x').replace('\t', 'x'))


def _is_placeholder(s):
    return len(s) == 1 and '\ue000' <= s <= '\uf8ff'


def mask_raw_html(doc):
    """-> list of placeholder characters used"""
    used = []
    for t in _walk(doc):
        name = type(t).__name__
        if name == 'HtmlBlock':
            ph = chr(0xE000 + len(used) % 6400)
            t.children[0].content = ph
            used.append(ph)
        elif name == 'HtmlSpan':
            ph = chr(0xE000 + len(used) % 6400)
            # the double quote makes the stand-in hostile where it must not be copied verbatim: inside an attribute
            # value (an image description) it would end the attribute unless it is escaped there
            t.content = ph + '"'
            used.append(ph)
    return used
