"""O2: own dump of a token tree (not get_ast): [class name, {scalar attributes}, [children]].
Header rows of tables are dumped under the pseudo-attribute '#header'."""

_SKIP = {'_parent', '_children', 'header'}


def _scalar(v):
    if v is None or isinstance(v, (str, int, float, bool)):
        return True
    if isinstance(v, (list, tuple)):
        return all(_scalar(x) for x in v)
    return False


def dump(token, with_lines=True, _depth=0):
    if _depth > 400:
        raise RecursionError('tree too deep for the dump')
    attrs = {}
    for k, v in vars(token).items():
        if k in _SKIP:
            continue
        if k == 'line_number' and not with_lines:
            continue
        if k == 'footnotes':
            attrs[k] = {str(a): list(b) for a, b in sorted(v.items())}
        elif _scalar(v):
            attrs[k] = list(v) if isinstance(v, tuple) else v
    hdr = vars(token).get('header')
    if hdr is not None:
        attrs['#header'] = dump(hdr, with_lines, _depth + 1)
    ch = token.children
    kids = None if ch is None else [dump(c, with_lines, _depth + 1) for c in ch]
    return [type(token).__name__, attrs, kids]


def shift_lines(d, delta):
    """Copy of a dump with every line_number increased by delta."""
    name, attrs, kids = d
    attrs = dict(attrs)
    if 'line_number' in attrs and isinstance(attrs['line_number'], int):
        attrs['line_number'] += delta
    if '#header' in attrs:
        attrs['#header'] = shift_lines(attrs['#header'], delta)
    return [name, attrs, None if kids is None else [shift_lines(k, delta) for k in kids]]


def first_difference(a, b, path='root'):
    """Human-readable location of the first difference between two dumps."""
    if a is None or b is None:
        return None if a == b else '%s: %r vs %r' % (path, a, b)
    if a[0] != b[0]:
        return '%s: %s vs %s' % (path, a[0], b[0])
    if a[1] != b[1]:
        keys = sorted(set(a[1]) | set(b[1]))
        for k in keys:
            if a[1].get(k) != b[1].get(k):
                if k == '#header' and a[1].get(k) and b[1].get(k):
                    return first_difference(a[1][k], b[1][k], path + '/' + a[0] + '#header')
                return '%s/%s.%s: %r vs %r' % (path, a[0], k, a[1].get(k), b[1].get(k))
    ka, kb = a[2], b[2]
    if ka is None or kb is None:
        return None if ka == kb else '%s/%s: children %r vs %r' % (path, a[0], ka is not None, kb is not None)
    for i, (x, y) in enumerate(zip(ka, kb)):
        d = first_difference(x, y, '%s/%s[%d]' % (path, a[0], i))
        if d:
            return d
    if len(ka) != len(kb):
        return '%s/%s: %d vs %d children' % (path, a[0], len(ka), len(kb))
    return None
