"""Environment: locate the tree under test and import mistletoe from it."""
import os
import sys

VERIF_DIR = os.path.dirname(os.path.dirname(os.path.abspath(__file__)))
REPO = os.path.abspath(os.environ.get('VERIF_REPO', '/repo'))
DEPS = os.path.join(VERIF_DIR, '.deps')

# The tree under test goes first on sys.path, so an editable install of another
# checkout can never shadow it.
if REPO not in sys.path:
    sys.path.insert(0, REPO)
if os.path.isdir(DEPS) and DEPS not in sys.path:
    sys.path.append(DEPS)


def seed():
    try:
        return int(os.environ.get('VERIF_SEED', '1'))
    except ValueError:
        return 1


def nproc():
    try:
        n = int(os.environ.get('VERIF_NPROC', '0'))
    except ValueError:
        n = 0
    return n or min(16, os.cpu_count() or 1)


def assert_repo_import():
    import mistletoe
    path = os.path.abspath(mistletoe.__file__)
    if not path.startswith(REPO + os.sep):
        raise RuntimeError('mistletoe imported from %s, expected under %s' % (path, REPO))
    return path
