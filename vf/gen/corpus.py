"""G0: vendored corpus (cannot drift with the tree under test)."""
import functools
import hashlib
import json
import os

from .. import env

CORPUS_DIR = os.path.join(env.VERIF_DIR, 'corpus')
SPEC_FILE = os.path.join(CORPUS_DIR, 'commonmark-0.30.json')
SPEC_SHA256 = 'ae6129f3ce3caf4f99cf4f9a5ad3558a309652b5b887171013e2bf0797289b98'


@functools.lru_cache(None)
def spec_examples():
    with open(SPEC_FILE, 'rb') as f:
        raw = f.read()
    if hashlib.sha256(raw).hexdigest() != SPEC_SHA256:
        raise RuntimeError('vendored spec corpus has been modified')
    data = json.loads(raw.decode('utf-8'))
    if len(data) != 652:
        raise RuntimeError('expected 652 spec examples')
    return data


@functools.lru_cache(None)
def spec_inputs():
    return tuple(e['markdown'] for e in spec_examples())


@functools.lru_cache(None)
def sample_docs():
    out = []
    for name in sorted(os.listdir(CORPUS_DIR)):
        if name.endswith('.md'):
            with open(os.path.join(CORPUS_DIR, name), encoding='utf-8') as f:
                out.append((name, f.read()))
    return tuple(out)


@functools.lru_cache(None)
def sample_chunks(max_lines=30):
    """The realistic documents cut at blank lines into chunks of <= max_lines lines."""
    chunks = []
    for _, text in sample_docs():
        cur = []
        for line in text.split('\n'):
            cur.append(line)
            if line.strip() == '' and len(cur) >= max_lines // 2:
                chunks.append('\n'.join(cur))
                cur = []
        if cur:
            chunks.append('\n'.join(cur))
    return tuple(c for c in chunks if c.strip())
