"""Writer for G4 model trees: emits Markdown lines, records the 1-based line of every
block (node.a['line']) and the effective looseness of lists (node.a['loose_eff']).

write(doc, t) -> (text, lines).  t is the choice tape for the remaining free spelling
choices (optional blank lines, lazy continuation lines, '>' with/without space); in
canonical mode no such choice is taken."""
import re

from . import docgen
from .docgen import N, can_interrupt_paragraph, need_blank


class L:
    __slots__ = ('text', 'lazy', 'starts', 'blank', 'bare', 'qlazy')

    def __init__(self, text, lazy=False, starts=None, blank=False, bare=True, qlazy=False):
        self.text = text
        self.lazy = lazy
        self.starts = starts or []
        self.blank = blank
        self.bare = bare      # no container prefix has been applied yet: only then may an outer container drop its own
        # a paragraph continuation line that stays one only through its own indentation of four or more columns: a block
        # quote may still drop its marker before it (the indentation stays), a list item may not (it would lose it)
        self.qlazy = qlazy


# ---------------------------------------------------------------- inline

def inline_md(items, table=False):
    s = []
    for idx, it in enumerate(items):
        k = it.kind
        if k == 'text':
            s.append(it.s)
        elif k == 'sp':
            s.append(' ')
        elif k == 'soft':
            s.append('\n' + ' ' * it.indent)
        elif k == 'hard':
            s.append(it.style + '\n' + ' ' * it.indent)
        elif k in ('em', 'strong'):
            ch = it.get('ch') or '*'
            d = ch * (1 if k == 'em' else 2)
            s.append(d + inline_md(it.children, table) + d)
        elif k == 'strike':
            s.append('~~' + inline_md(it.children, table) + '~~')
        elif k == 'code':
            n, pad = docgen._code_delim(it)
            content = it.content.replace(' ', '\n', 1) if it.get('nl') else it.content     # a line ending inside a code span reads as a space
            s.append('`' * n + pad + content + pad + '`' * n)
        elif k in ('link', 'image'):
            s.append(('!' if k == 'image' else '') + '[' + inline_md(it.children, table) + '](' + dest_md(it) + title_md(it) + ')')
        elif k == 'reflink':
            bang = '!' if it.image else ''
            if it.rec is None:
                lab = it.label
                s.append(bang + '[' + lab + ']' + ('[]' if it.form == 'collapsed' else ''))
            elif it.form == 'full':
                s.append(bang + '[' + inline_md(it.children, table) + '][' + it.spelled + ']')
            elif it.form == 'collapsed':
                s.append(bang + '[' + it.spelled + '][]')
            else:
                s.append(bang + '[' + it.spelled + ']')
        elif k == 'autolink':
            s.append('<' + it.url + '>')
        elif k == 'html':
            s.append(it.raw)
        elif k == 'escape':
            s.append('\\' + it.ch + it.tail)
        elif k == 'entity':
            s.append(it.src)
        elif k == 'emphsrc':
            s.append(it.s)
        else:
            raise AssertionError(k)
    return ''.join(s)


def dest_md(it):
    d = it.dest
    if it.angle:
        return '<' + d.replace('<', '\\<').replace('>', '\\>') + '>'
    return d.replace('\\', '\\\\') if '\\' in d else d


def title_md(it):
    if not it.title:
        return ''
    q = it.tq
    t = it.title
    if q == '"':
        t = t.replace('"', '\\"')
        return ' ' * it.tsep + '"' + t + '"'
    if q == "'":
        t = t.replace("'", "\\'")
        return ' ' * it.tsep + "'" + t + "'"
    t = t.replace('(', '\\(').replace(')', '\\)')
    return ' ' * it.tsep + '(' + t + ')'


def assign_delims(items, parent_ch, t, canonical):
    """Child emphasis always uses the other delimiter character than its parent."""
    for it in items:
        if it.kind in ('em', 'strong'):
            if parent_ch:
                ch = '_' if parent_ch == '*' else '*'
            else:
                ch = '*' if canonical and False else t.choice('*_')
            it.a['ch'] = ch
            assign_delims(it.children, ch, t, canonical)
        elif it.kind in ('strike', 'link', 'image'):
            assign_delims(it.children, parent_ch, t, canonical)
        elif it.kind == 'reflink' and it.children:
            assign_delims(it.children, parent_ch, t, canonical)


# ---------------------------------------------------------------- blocks

class Writer:
    def __init__(self, t, opts):
        self.t = t
        self.canonical = bool(opts.get('canonical'))
        self.exclude = set(opts.get('exclude') or ())
        self.at_doc_level = False
        self.lazy_used = 0

    def para_lines(self, b, first_indent):
        text = inline_md(b.inl)
        ls = text.split('\n')
        out = [L(' ' * first_indent + ls[0], False, [b])]
        for l in ls[1:]:
            # a line that is only kept from being a block start by its indentation must keep all container prefixes
            out.append(L(l, not l.startswith('    '), qlazy=l.startswith('    ')))
        return out

    def blocks(self, bs, tight=False, in_item=False, doc_level=False, bullet=None):
        t = self.t
        lines = []
        prev = None
        forced_loose = False
        self.had_blank = False
        had_blank = False
        for i, b in enumerate(bs):
            first_in_item = in_item and prev is None
            if prev is not None and prev.kind == 'list':
                b.a['indent'] = 0           # more indentation would make the block part of the last item
            if first_in_item:
                b.a['indent'] = 0           # the marker padding already counts
            self.at_doc_level = doc_level       # column 0: tabs can stand for a known number of columns
            bl = self.block(b, prev, first_in_item, bullet if first_in_item else None)
            if prev is not None:
                need = need_blank(prev, b)
                # a '-' run directly under a paragraph would be a setext underline
                nb = 0
                if need:
                    nb = 1 if (self.canonical or not doc_level) else t.weighted([(4, 1), (1, 2)])
                    if tight:
                        forced_loose = True
                elif not tight and not self.canonical and t.chance(110):
                    nb = 1
                elif self.canonical and not tight:
                    nb = 1
                for _ in range(nb):
                    lines.append(L('', False, None, True))
                    had_blank = True
            lines.extend(bl)
            prev = b
        self.had_blank = had_blank
        return lines, forced_loose

    def block(self, b, prev, first_in_item, bullet):
        t = self.t
        k = b.kind
        ind = ' ' * b.a.get('indent', 0)
        if k == 'para':
            assign_delims(b.inl, None, t, self.canonical)
            return self.para_lines(b, len(ind))
        if k == 'atx':
            assign_delims(b.inl, None, t, self.canonical)
            text = inline_md(b.inl)
            line = ind + '#' * b.level
            if text:
                # a tab may stand between the opening sequence and the text (it is stripped like the spaces)
                line += ('\t' if (b.get('sp_tab') and 'tabs' not in self.exclude) else ' ' * b.sp) + text
            if b.closing:
                line += ' ' * (b.csp if text else max(1, b.csp)) + b.closing
            line += b.trail
            return [L(line, False, [b])]
        if k == 'setext':
            assign_delims(b.inl, None, t, self.canonical)
            text = inline_md(b.inl)
            ls = text.split('\n')
            out = [L(ind + ls[0], False, [b])] + [L(l, not l.startswith('    ')) for l in ls[1:]]
            ch = '=' if b.level == 1 else '-'
            out.append(L(' ' * b.uindent + ch * b.ulen + b.utrail))
            return out
        if k == 'hr':
            ch = b.ch
            if bullet is not None and ch == bullet:
                ch = '_'                   # '- ---' would be a thematic break, not a list item
            if prev is not None and prev.kind in ('para', 'defs') and ch == '-' and not need_blank(prev, b):
                ch = '*'                   # '---' under a paragraph would be a setext underline
            b.a['ch_eff'] = ch
            return [L(ind + b.sep.join(ch * b.n), False, [b])]
        if k == 'fence':
            out = [L(ind + b.ch * b.n + b.isp + b.info, False, [b])]
            for l in b.lines:
                out.append(L((ind + l) if l else '', False))
            if not b.unclosed:
                out.append(L(ind + b.ch * (b.n + b.cextra) + b.ctrail))
            return out
        if k == 'icode':
            lead = '    '
            if self.at_doc_level and not self.canonical and 'tabs' not in self.exclude:
                # at column 0 a tab, or up to three spaces and a tab, is the same indentation
                lead = t.choice(['    ', '    ', '\t', ' \t', '   \t'])
            out = []
            for i, l in enumerate(b.lines):
                if l.strip():
                    text = lead + l
                elif l == '' and not self.canonical:
                    text = t.choice(['', '', '    ', '  '])       # an empty line of the block: any indentation up to four columns
                else:
                    text = '    ' + l
                out.append(L(text, False, [b] if i == 0 else None, False, False) if not text else L(text, False, [b] if i == 0 else None))
            return out
        if k == 'htmlblock':
            return [L(l, False, [b] if i == 0 else None, False) for i, l in enumerate(b.lines)]
        if k == 'defs':
            out = []
            for (rec, d) in b.entries:
                dest = '<' + d['dest'] + '>' if d['angle'] else d['dest']
                title = ''
                if d['title']:
                    q = d['tq']
                    title = q + d['title'] + (')' if q == '(' else q)
                ci = ' ' * d.get('cont_indent', 0)
                first = ind + '[' + d['spelled'] + ']:'
                rest = []
                if d.get('dest_nl'):
                    rest.append(ci + dest)
                else:
                    first += ' ' + dest
                if title:
                    tl = title.split('\n')          # a title may run over several lines (no blank one)
                    if d.get('title_nl'):
                        rest.append(ci + tl[0])
                    elif rest:
                        rest[-1] += ' ' + tl[0]
                    else:
                        first += ' ' + tl[0]
                    for more in tl[1:]:
                        rest.append(more)       # (its indentation is part of the title: reference parsers work on the raw paragraph text)
                fl = first.split('\n')           # a label may run over lines
                out.append(L(fl[0], False, [b] if not out else None))
                for r in fl[1:] + rest:
                    out.append(L(r, False))
                d['node'] = b
            return out
        if k == 'table':
            def cell(inl):
                assign_delims(inl, None, t, self.canonical)
                return inline_md(inl).replace('|', '\\|')
            rows = [[cell(c) for c in b.header]] + [[cell(c) for c in row] for row in b.rows]
            delim = []
            for a, n in zip(b.aligns, b.dashes):
                delim.append({None: '-' * n, 'left': ':' + '-' * n, 'center': ':' + '-' * n + ':', 'right': '-' * n + ':'}[a])

            if self.canonical:
                # MarkdownRenderer's normal form: every row has all cells, cells padded to the column width (>= 3),
                # left / centred / right per alignment, delimiter cells stretched to the width
                nc = len(b.aligns)
                rows = [r + [''] * (nc - len(r)) for r in rows]
                widths = [max(3, max(len(r[ci]) for r in rows)) for ci in range(nc)]

                def fmt(text, a, w):
                    if a == 'center':
                        return '{0: ^{w}}'.format(text, w=w)
                    if a == 'right':
                        return '{0: >{w}}'.format(text, w=w)
                    return '{0: <{w}}'.format(text, w=w)
                rows = [[fmt(r[ci], b.aligns[ci], widths[ci]) for ci in range(nc)] for r in rows]
                delim = []
                for a, w in zip(b.aligns, widths):
                    delim.append((':' if a == 'center' else '-') + '-' * (w - 2) + (':' if a in ('center', 'right') else '-'))

            def rowline(cs, is_delim=False):
                if self.canonical or 'table_spelling' in self.exclude:
                    return ind + '| ' + ' | '.join(cs) + ' |'
                # GFM: the outer pipes are optional and cells may be padded at will.  The leading pipe stays when the
                # row could otherwise begin another block, the trailing one when the last cell is empty (it would vanish)
                # and one of them when the row has a single cell (no pipe, no table)
                pad = lambda: ' ' * t.weighted([(3, 1), (2, 0), (1, 2)])
                lead = not (cs[0][:1].isalpha() or (is_delim and cs[0][:1] == ':')) or t.chance(128)
                trail = cs[-1] == '' or t.chance(128)
                if len(cs) == 1 and not lead and not trail:
                    lead = True
                def rpad(c):
                    p = pad()
                    if not p and c.endswith('\\') and 'cell_backslash_pipe' in self.exclude:
                        p = ' '         # recorded finding F34: '\\\\|' is read as an escaped pipe
                    return p
                body = '|'.join((pad() if (i or lead) else '') + c + (rpad(c) if (i < len(cs) - 1 or trail) else '') for i, c in enumerate(cs))
                return ind + ('|' if lead else '') + body + ('|' if trail else '')
            out = [L(rowline(rows[0]), False, [b, ('row', b, 0)]), L(rowline(delim, True))]
            for ri, r in enumerate(rows[1:]):
                out.append(L(rowline(r), False, [('row', b, ri + 1)]))
            return out
        if k == 'quote':
            inner, _ = self.blocks(b.children)
            no_lazy = self.canonical or ('lazy_with_setext' in self.exclude and _has_setext(b))
            out = []
            prev_indented = False
            for li, rec in enumerate(inner):
                lazy_ok = (rec.lazy or rec.qlazy) and rec.bare and not no_lazy
                if lazy_ok and prev_indented and 'lazy_after_indented' in self.exclude:
                    lazy_ok = False
                if lazy_ok and t.chance(70):
                    self.lazy_used += 1
                    out.append(L(rec.text, rec.lazy, rec.starts, qlazy=rec.qlazy))
                    continue
                if rec.blank:
                    m = '> ' if self.canonical else t.choice(['>', '> ', '>'])
                    out.append(L(ind + m, False, rec.starts, False, False))
                    prev_indented = False
                    continue
                bare_ok = not rec.text.startswith(' ')
                m = '>' if (bare_ok and not self.canonical and t.chance(70)) else '> '
                out.append(L(ind + m + rec.text, rec.lazy, rec.starts, False, False))
                # mistletoe judges laziness from the look of the previous marked line (recorded finding)
                prev_indented = rec.text.startswith('    ') or bool(re.match(r' {0,3}(`{3,}|~{3,})', rec.text))
            for _ in range(b.get('lead_blank', 0)):
                out.insert(0, L(ind + '>', False, None, False, False))
            out[0].starts = [b] + (out[0].starts or [])
            return out
        if k == 'list':
            list_doc_level = self.at_doc_level      # (nested calls overwrite the attribute)
            out = []
            num = b.start
            loose = b.loose
            results = []
            forced = False
            for idx, it in enumerate(b.items):
                digits = str(num)
                if b.ordered and b.get('zeros') and len(digits) + b.zeros <= 9 and not self.canonical:
                    digits = '0' * b.zeros + digits       # '007.' is the number 7
                marker = (digits + b.delim) if b.ordered else b.bullet
                if b.ordered:
                    num += 1
                it.a['marker'] = marker
                if it.children and it.children[0].kind == 'icode':
                    it.a['pad'] = 1
                if it.children and it.children[0].kind == 'list':
                    sub_first = it.children[0].items[0]
                    if not sub_first.children or sub_first.get('blank_first'):
                        it.a['blank_first'] = False
                        sub_first.a['blank_first'] = False
                        if not sub_first.children:
                            sub_first.a['children'] = [N('para', inl=[N('text', s='filler')], indent=0)]
                inner, f = self.blocks(it.children, tight=not loose, in_item=True, bullet=None if b.ordered else b.bullet)
                forced = forced or f
                results.append((it, marker, inner, self.had_blank))
            if forced:
                loose = True
            # a list is loose only if some blank line separates items or direct children
            b.a['loose_eff'] = False
            prev_w = None
            list_ind = ind
            for idx, (it, marker, inner, had_blank) in enumerate(results):
                blank_first = bool(it.get('blank_first')) and bool(inner)
                ind = list_ind
                if idx and not self.canonical and 'item_indent' not in self.exclude:
                    # a sibling's marker may be indented differently, as long as it stays left of the previous item's
                    # content (else it would belong to that item) and within three columns
                    room = min(3, prev_w - 1) - len(list_ind)
                    if room > 0 and t.chance(50):
                        ind = list_ind + ' ' * (1 + t.below(room))
                w = len(ind) + len(marker) + (1 if blank_first else it.pad)
                prev_w = w if inner else len(ind) + len(marker) + 1       # an empty item's content would start one column after the marker
                it.a['w'] = w
                item_lines = []
                # a marker with nothing after it may still be followed by spaces / tabs (they never count)
                mtrail = '' if self.canonical else t.choice(MARKER_TRAILS)
                if not inner:
                    item_lines.append(L(ind + marker + mtrail, False, [it]))
                elif blank_first:
                    item_lines.append(L(ind + marker + mtrail, False, [it]))
                    for rec in inner:
                        item_lines.append(self._item_line(rec, w))
                else:
                    first = inner[0]
                    padding = ' ' * it.pad
                    if (list_doc_level and ind == '' and not self.canonical and 'tabs' not in self.exclude
                            and it.pad == 4 - len(marker) % 4 and t.chance(100)):
                        padding = '\t'     # from column len(marker) a tab reaches the same column as the spaces
                    item_lines.append(L(ind + marker + padding + first.text, False, [it] + (first.starts or []), False, False))
                    for rec in inner[1:]:
                        item_lines.append(self._item_line(rec, w))
                if idx and loose:
                    out.append(L('', False, None, True))
                    b.a['loose_eff'] = True
                if had_blank:
                    b.a['loose_eff'] = True
                out.extend(item_lines)
            out[0].starts = [b] + (out[0].starts or [])
            return out
        raise AssertionError(k)

    def _item_line(self, rec, w):
        t = self.t
        if rec.blank:
            return L('', False, rec.starts, True)
        if rec.text == '':
            return L('', False, rec.starts, False, False)      # e.g. an empty line of a fenced code block
        if rec.lazy and rec.bare and not self.canonical and t.chance(50):
            self.lazy_used += 1
            return L(' ' * t.below(min(w, 4)) + rec.text.lstrip(' '), True, rec.starts)
        return L(' ' * w + rec.text, rec.lazy, rec.starts, False, False)


MARKER_TRAILS = ['', '', '', ' ', '  ', '    ', '     ', '       ', '\t', ' \t', '\t\t']
BLANK_SPELLINGS = ['', '', '', '', '', '', ' ', '  ', '   ', '\t']


def _has_setext(b):
    if b.kind == 'setext':
        return True
    if b.kind == 'quote':
        return any(_has_setext(c) for c in b.children)
    if b.kind == 'list':
        return any(_has_setext(c) for it in b.items for c in it.children)
    return False


def write(doc, t, opts=None):
    w = Writer(t, opts or {})
    lines, _ = w.blocks(doc.children, doc_level=True)
    lines = [L('', False, None, True) for _ in range(doc.lead_blank)] + lines
    for i, rec in enumerate(lines):
        for node in (rec.starts or []):
            if isinstance(node, tuple):
                _, tbl, ri = node
                tbl.a.setdefault('row_lines', {})[ri] = i + 1
            else:
                node.a['line'] = i + 1
    if not w.canonical:
        # a blank line may hold spaces / tabs
        for rec in lines[:-1]:
            if rec.blank and rec.text == '':
                rec.text = t.choice(BLANK_SPELLINGS)
    text = '\n'.join(rec.text for rec in lines)
    if lines and (doc.final_newline or lines[-1].text == ''):
        text += '\n'        # an empty last line only exists if it is terminated
    doc.a['lazy_used'] = w.lazy_used
    return text, lines
