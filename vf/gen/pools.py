"""Text pools G1 (raw strings), G2 (line-fragment documents), G3 (corpus mutation),
G5 (pumped snippets); all decoded from a choice tape.  '\\n' is the only line
terminator generated (the properties' domain); lone surrogates never occur."""
from . import corpus
from .tape import Tape

SIGNIFICANT = list('*_`[]()<>!#+-=.|~\\&:;"\'$^{}/@%')
LETTERS = list('abcxyzAZ') + ['é', 'ß', 'Σ', '中', 'я']
DIGITS = list('0123456789') + ['\u0663', '\u0967', '\uff11']      # incl. digits of other scripts
UNI_PUNCT = ['«', '»', '—', '“', '”', '…']
UNI_SPACE = [' ', ' ', '　']
ASTRAL = ['\U0001F600']
# NUL, other C0 controls that are not line separators, DEL, BOM, zero-width space, a combining mark, a right-to-left mark
CONTROL = ['\x00', '\x01', '\x1f', '\x7f', '\ufeff', '\u200b', '\u0301', '\u200f']

_G1 = ([(6, c) for c in SIGNIFICANT] + [(5, c) for c in LETTERS] + [(2, c) for c in DIGITS]
       + [(40, ' '), (25, '\n'), (4, '\t')] + [(1, c) for c in UNI_PUNCT + UNI_SPACE + ASTRAL + CONTROL])
_G1_FLAT = []
for _w, _c in _G1:
    _G1_FLAT.extend([_c] * _w)


def raw_text(t, max_len=300):
    n = t.below(max_len + 1) if t.chance(200) else t.below(24)
    return ''.join(t.choice(_G1_FLAT) for _ in range(n))


INDENTS = ['', '', '', ' ', '  ', '   ', '    ', '     ', '        ', '\t', ' \t']
CONTAINER_PREFIXES = ['> ', '>', '- ', '1. ', '\u0663. ', '\u0967) ', '12) ', '+   ', '* ', '>  ', '0. ', '-\t', '  - ', '   > ']
BLOCK_OPENERS = ['# ', '## ', '###### ', '####### ', '#', '```', '~~~', '````', '``` py', '~~~ a`b', '***', '---', '___',
                 '- - -', '===', '=', '--', '|a|b|', '|:-|-:|', '|---|', 'a|b', '-|-', '[l]: u "t"', '[l]: <u v>', '[l]:',
                 '[l]: /u\n"t"', '| a | b |\n|---|---|', 'a|b\n-|:-:\nc|d', '|x|\n|-|\n', '<div>', '</div>', '<!--', '-->', '<?', '?>', '<![CDATA[', ']]>', '<pre>', '</pre>', '<script>',
                 '<!X', '<a b="c">', '<span>', '    ', '\t', '</body>', '<body class="x">', '</html>', '<html>', '<head>']
INLINE = ['*', '**', '***', '_', '__', '`', '``', '` `', '[', ']', '](', ')', '][', '[]', '![', '(u)', '(<u v>)', '("t")',
          '&amp;', '&#35;', '&#x22;', '&#0;', '&x;', '&', '\\', '\\*', '\\\\', '\\[', '<http://a.b>', '<a@b.c>', '<x:y z>',
          '<b>', '</b>', '<b c="d">', '<!-- c -->', '<?p?>', '$x$', '$$y$$', '[[a|b]]', '[[a]]', '{{m}}', '{{/m}}', '~~', '~',
          '  ', '   ', ' ', ' ', ' ', 'a', 'b', 'foo', 'bar', 'l', '[l]', '[L][]', '[x][l]', '![l]', 'é', '中', ' ', '“',
          'http://x.y/z?a=b&c=d', '"', "'", '(', ':', '|', '\\|', '#', ' #', '1.', '-', '+', '>', '<', '=',
          # truncated constructs (a scanner that runs off the end of its string)
          '[a](<b>', '[a](<b c>', '](<', '[a](b "t"', '![a](<b>', '[a](b "t', '[a](b (t', '[a][', '[a]:', '<a b="c', '<!--', '&#', '&#x', '`a', '~~a', '$a',
          '[[a|', '{{a', '<a@', '<http:', '\\']


_REF_VALUES = [0, 9, 10, 13, 32, 35, 38, 60, 127, 128, 150, 159, 160, 0xD7FF, 0xD800, 0xDFFF, 0xE000, 0xFFFD, 0xFFFE, 0xFFFF, 0x10000,
               0x10FFFF, 0x110000, 0xFFFFFF, 9999999, 99999999]


def numeric_ref(t):
    """a numeric character reference: boundary code points (NUL, C1 range, surrogates, last scalar value, beyond Unicode,
    the longest accepted digit strings) or random digits, decimal or hexadecimal, with or without the semicolon"""
    if t.chance(170):
        v = t.choice(_REF_VALUES)
        body = ('%d' % v) if t.chance(128) else (t.choice('xX') + t.choice(['%x', '%X', '%06x']) % v)
    elif t.chance(128):
        body = ''.join(t.choice('0123456789') for _ in range(1 + t.below(9)))
    else:
        body = t.choice('xX') + ''.join(t.choice('0123456789abcdefABCDEF') for _ in range(1 + t.below(8)))
    return '&#' + body + (';' if not t.chance(30) else '')


# constructs that may not occur inside a link, nested one level below the link text
INLINE += ['[*<http://a.b>*](/u)', '[**to <me@x.org>** now](/u "t")', '[![<http://a.b>](/i.png)](/u)', '[~~<http://a.b>~~][l]', '[_[in](/n)_](/u)']
# a table head that a paragraph line precedes and indentation hands to another block type
BLOCK_OPENERS += ['foo\n    a | b\n    --- | ---', 'foo\n\ta | b\n\t-|-\n\nbar', 'foo\n2. a | b\n-|-']
# task-list markers of other dialects: plain text here
INLINE += ['[ ] ', '[x] ', '[X] ', '[x]', '[ ]\t']
CONTAINER_PREFIXES += ['- [x] ', '1. [ ] ', '* [X] ']
# code spans that name a language the way other Markdown dialects do (inline highlighting conventions): plain code here
INLINE += ['`#!python import os`', '`#!js var x = 1;`', '`:::python x = 1`', '`{.c} int x;`', '``#!bash echo `date` ``', '`#!/bin/sh`', '`python print(1)`']
INLINE += ['\\begin{equation}', '\\end{equation}', '\\begin{align*}', '\\(', '\\[', 'data:image/png;base64,', '</pre></div>', '<div class="highlight"><pre>', '\u0663.', '\u0967)', '\uff11.', '</body>', '<body>', '</html>', '<head>', '</script>', '<title>', 'a\tb', 'foo\tbar', 'x\t', 'a>\tb', 'q>\t', '&#1114111;', '&#1114112;', '&#x10FFFF;', '&#x110000;', '&#xD800;', '&#9999999;', '&#xFFFFFF;', '&#128;', '&#x80;', '\x00', '\ufeff']


def line_doc(t, max_lines=14):
    lines = []
    for _ in range(1 + t.below(max_lines)):
        if t.chance(51):
            lines.append(t.choice(['', '', ' ', '  ', '>', '> ']))
            continue
        s = t.choice(INDENTS)
        for _ in range(t.weighted([(5, 0), (3, 1), (2, 2), (1, 3)])):
            s += t.choice(CONTAINER_PREFIXES)
        if t.chance(90):
            s += t.choice(BLOCK_OPENERS)
        for _ in range(t.below(7)):
            s += t.choice(INLINE) if not t.chance(8) else numeric_ref(t)
        if t.chance(20):
            s += t.choice(['  ', '\\', '   ', ' #', ' ##  '])
        lines.append(s)
    text = '\n'.join(lines)
    if t.chance(50) and text:
        text = text[:1 + t.below(len(text))]        # cut anywhere: constructs left open at the end of a block
    if not t.chance(40):
        text += '\n'
    return text


EXTRA = [
    '\\begin{align}\na *b* c &= d\n\\end{align}\n', 'inline \\begin{x}y\\end{x} and \\(z\\)\n',
    '<div><pre>x\n</pre></div>\n\n<span>y</span>\n', '<!-- </pre></div>\n\n<x -->\n\ntext\n', '<script>\na = "</pre></div>"\n\n< b\n</script>\n',
    '| a | b |\n|---|---|\n| c | d |\n',
    '| left | center | right |\n|:-----|:------:|------:|\n| *1* | `2` | [3](u) |\n| 4 | 5 |\n',
    'a | b\n- | -\nc | d\n\npara\n',
    'para\n| h |\n| - |\n| x \\| y |\n',
    '> | q | r |\n> |---|---|\n> | 1 | 2 |\n',
    '- | i | j |\n  |---|--:|\n  | 1 | 2 |\n',
    '~~gone~~ and ~~*both*~~\n',
    'text $x^2$ and $$y_1$$ and [[wiki|page]] and {{macro}}\nbody\n{{/macro}}\n',
    '```py\nprint(1)\n```\n\n~~~\nraw\n~~~\n',
    '<div>\n*html*\n</div>\n\n<span>inline</span> text <!-- c -->\n',
    '1. one\n2. two\n   - nested\n\n     para\n3. three\n',
    '[ref]: /url "title"\n\n[ref] and [text][ref] and ![img][ref] and [ref][]\n',
]


def corpus_text(t):
    k = t.below(16)
    if k < 12:
        return t.choice(corpus.spec_inputs())
    if k < 14:
        return t.choice(EXTRA)
    return t.choice(corpus.sample_chunks())


def mutated(t):
    s = corpus_text(t)
    for _ in range(t.below(5)):
        op = t.below(10)
        if op == 0 and s:            # delete a span
            i = t.below(len(s))
            s = s[:i] + s[i + 1 + t.below(6):]
        elif op == 1 and s:          # duplicate a span
            i = t.below(len(s))
            j = i + 1 + t.below(8)
            s = s[:j] + s[i:j] + s[j:]
        elif op == 2:                # swap / duplicate lines
            ls = s.split('\n')
            if len(ls) > 1:
                i, j = t.below(len(ls)), t.below(len(ls))
                if t.chance(128):
                    ls[i], ls[j] = ls[j], ls[i]
                else:
                    ls.insert(i, ls[j])
                s = '\n'.join(ls)
        elif op == 3:                # insert one significant character
            i = t.below(len(s) + 1)
            s = s[:i] + t.choice(SIGNIFICANT + [' ', '\n', '\t']) + s[i:]
        elif op == 4:                # splice with another example at a line boundary
            o = corpus_text(t)
            a, b = s.split('\n'), o.split('\n')
            s = '\n'.join(a[:t.below(len(a) + 1)] + b[t.below(len(b) + 1):])
        elif op == 5:                # re-indent a line range
            ls = s.split('\n')
            i = t.below(len(ls))
            pad = t.choice([' ', '  ', '   ', '    ', '\t'])
            for k in range(i, min(len(ls), i + 1 + t.below(4))):
                ls[k] = pad + ls[k] if t.chance(200) else ls[k].lstrip(' ')
            s = '\n'.join(ls)
        elif op == 6:                # wrap in quote / list
            pre = t.choice(['> ', '>', '- ', '1. ', '  * '])
            s = '\n'.join((pre if (i == 0 or pre.startswith('>')) else ' ' * len(pre)) + l
                          for i, l in enumerate(s.split('\n')))
        elif op == 7 and s:          # truncate
            s = s[:t.below(len(s))]
        elif op == 8:                # drop the final newline
            s = s.rstrip('\n')
        elif op == 9:                # insert an inline fragment
            i = t.below(len(s) + 1)
            s = s[:i] + t.choice(INLINE) + s[i:]
    return s


SNIPPETS = ['*', '_', '`', '[', ']', '](', '<a ', '<!--', '&#', '\\', '> ', '- ', '1. ', '| a |\n|---|\n', '[a]: <', '*a ',
            ' a*', '**_', '_a ', ' a_', '[a](', '![', '<', '>', '&', '~~', '~', '`a', 'a`', '``', '(', ')', '((', '"', "'",
            '[a]', '[a][', '[]', '<b', '</', '<?', '<!', '\n', ' \n', '  \n', '\\\n', '\t', '    ', '#', '# ', '=', '-', '--',
            '***', '* ', '+ ', '>', '>>', '> > ', '- - ', '1) ', '|', '|-', '-|', ':-', '$', '$$', '[[', ']]', '{{', '}}',
            '{{a}}\n', '{{/a}}', 'a\n', 'a\n\n', '\n\n', '[a]:', '[a]: b\n', ' "', '<a@', '<a:', 'http://', '&a', ';', '&#x',
            ' ', '中', '*a*', '_a_', '**a**', '`a`', '[a](b)', '<b>',
            # every backslash escape, and an escape followed by a letter (alternatives that overlap in a pattern blow up here)
            '\\~', '\\*', '\\_', '\\`', '\\[', '\\]', '\\(', '\\)', '\\<', '\\>', '\\$', '\\|', '\\&', '\\"', "\\'", '\\\\', '\\~a', '\\*a', 'a\\$']
FRAMES = [('', ''), ('a', 'a'), ('> ', ''), ('- ', ''), ('# ', ''), ('[', '](u)'), ('*', '*'), ('`', '`'), ('', '\n'),
          ('| a |\n|---|\n| ', ' |'), ('[a]: ', ''),
          # an opener that is never closed, in front of the repetition
          ('~~', ''), ('**', ''), ('$', ''), ('$$', ''), ('[[', ''), ('{{', ''), ('<', ''), ('![', ''), ('``', ''), ('[a](', ''), ('[a]: /u "', ''), ('<!--', ''),
          ('```', ''), ('~~a', 'b~~'), ('[', ']'),
          # a repetition that almost matches a line pattern, spoilt at its very end
          ('', 'a'), ('', ' a\n'), ('   ', 'x'), ('- ', ' a'), ('> ', 'a'),
          # the second line of a would-be table: a delimiter row spoilt at its end
          ('| a | b |\n|', 'x|'), ('a|b\n', 'x'), ('a|b\n-', '|x'), ('para\n| a |\n| ', 'x')]


_ESCAPES = [x for x in SNIPPETS if x.startswith('\\') and len(x) >= 2 and x != '\\\n']
_OPENERS = [f for f in FRAMES if f[0] and not f[1] and not f[0].endswith(' ')]


def pumped(t, max_len=4096):
    a = t.choice(SNIPPETS)
    b = t.choice(SNIPPETS) if t.chance(90) else ''
    pre, suf = t.choice(FRAMES)
    if t.chance(30):
        # the class that blows up patterns with overlapping alternatives: an opener that is never closed, then one escape repeated
        a, b, (pre, suf) = t.choice(_ESCAPES), '', t.choice(_OPENERS)
    unit = a + b
    top = max(1, (max_len - len(pre) - len(suf)) // max(1, len(unit)))
    n = 1 + t.below(min(top, 65536)) if t.chance(128) else 1 + t.below(min(top, 40))
    return pre + unit * n + suf


_NEST_MARKERS = [['-', '*'], ['-'], ['*', '+', '-'], ['1.', '1)'], ['1.'], ['>'], ['-', '1.'], ['>', '-'], ['> -', '> *'],
                 ['2.'], ['7)', '3.'], ['10.'], ['0.'], ['1.', '2.', '-']]       # ordered lists that do not start at 1
_NEST_INNER = ['a', '- a', '* a', '1. a', '> a', '- - a', '```', '# a', 'a\n', '[a]: b', '| a |']


def nested_pump(t, max_depth=45):
    """Containers that deepen line by line: line i is indented to the content column of line i-1 and opens the next
    marker of a short cycle, optionally followed by more container openers -- the shape on which work that is redone
    per nesting level multiplies (at most about 90 levels, below the documented limit of 100)."""
    cyc = t.choice(_NEST_MARKERS)
    inner = t.choice(_NEST_INNER)
    depth = 2 + t.below(max_depth - 1) if t.chance(160) else 2 + t.below(10)
    if len(inner.split()) > 2 or ' ' in cyc[0]:
        depth = min(depth, 30)
    lines = []
    col = 0
    for i in range(depth):
        m = cyc[i % len(cyc)]
        lines.append(' ' * col + m + ' ' + inner)
        col += len(m) + 1 if not m.startswith('>') else 0
        if m.startswith('>'):
            # quote markers are repeated, not indented under
            lines[-1] = ('> ' * i)[:200] + m + ' ' + inner if cyc == ['>'] else lines[-1]
    text = '\n'.join(lines) + '\n'
    if t.chance(60):
        text += '\n' + 'tail\n'
    return text


def any_text(t, max_len=300, with_grammar=True):
    """(pool label, text) — the mixture used by the input-agnostic properties."""
    k = t.weighted([(3, 'G2-lines'), (3, 'G3-mutated'), (2, 'G1-raw'), (2, 'G0-corpus')]
                   + ([(4, 'G4-grammar')] if with_grammar else []))
    if k == 'G1-raw':
        return k, raw_text(t, max_len)
    if k == 'G2-lines':
        return k, line_doc(t)
    if k == 'G3-mutated':
        return k, mutated(t)
    if k == 'G4-grammar':
        try:
            from . import docgen
        except ImportError:
            return 'G2-lines', line_doc(t)
        return k, docgen.random_document_text(t, {'refs': True} if t.chance(100) else None)
    return k, corpus_text(t)
