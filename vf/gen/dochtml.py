"""Independent back-ends for G4 model trees (no mistletoe code involved):
expected HTML, expected link definitions, flat list of blocks with recorded lines."""
import html
import re
from html.entities import html5 as _HTML5


def esc(t):
    return t.replace('&', '&amp;').replace('<', '&lt;').replace('>', '&gt;')


_UNESC = re.compile(r'\\([!-/:-@\[-`{-~])|&(#[0-9]{1,7}|#[xX][0-9a-fA-F]{1,6}|[A-Za-z][A-Za-z0-9]{0,31});')


def md_unescape(s):
    """Backslash escapes of ASCII punctuation and entity / numeric character references, per spec 2.4, 2.5."""
    def rep(m):
        if m.group(1) is not None:
            return m.group(1)
        body = m.group(2)
        if body.startswith('#'):
            try:
                cp = int(body[2:], 16) if body[1] in 'xX' else int(body[1:])
            except ValueError:
                return m.group(0)
            if cp == 0 or cp > 0x10FFFF or 0xD800 <= cp <= 0xDFFF:
                return '\ufffd'
            return chr(cp)
        return _HTML5.get(body + ';', m.group(0))
    return _UNESC.sub(rep, s)


def normalize_label(label):
    """Case fold, strip, collapse internal whitespace (spec 4.7 / 6.3 'matches')."""
    return re.sub(r'[ \t\r\n]+', ' ', label.strip(' \t\r\n')).casefold()       # (other Unicode spaces are part of the label)


# hard-coded fold pairs, so that the oracle does not rest on str.casefold alone
_FOLD_PAIRS = [('ẞ', 'ss'), ('ß', 'ss'), ('Σ', 'σ'), ('ς', 'σ'), ('K', 'k')]


def fold_selfcheck():
    for a, b in _FOLD_PAIRS:
        if normalize_label(a) != normalize_label(b):
            raise RuntimeError('casefold table disagrees on %r / %r' % (a, b))
    return len(_FOLD_PAIRS)


class Resolver:
    """First definition in document order among those whose normalised label matches."""

    def __init__(self, doc):
        entries = []

        def walk(children):
            for b in children:
                if b.kind == 'defs':
                    for j, (rec, d) in enumerate(b.entries):
                        entries.append((b.a.get('line', 0), j, d))
                elif b.kind == 'quote':
                    walk(b.children)
                elif b.kind == 'list':
                    for it in b.items:
                        walk(it.children)
        walk(doc.children)
        entries.sort(key=lambda e: (e[0], e[1]))
        self.map = {}
        for _, _, d in entries:
            key = normalize_label(d['spelled'])
            if key not in self.map:
                self.map[key] = (md_unescape(d['dest']), md_unescape(d['title']))     # 'dest' / 'title' are source spellings

    def lookup(self, label):
        return self.map.get(normalize_label(label))


def plain(items):
    out = []
    for it in items:
        k = it.kind
        if k == 'text':
            out.append(it.s)
        elif k == 'sp':
            out.append(' ')
        elif k in ('soft', 'hard'):
            out.append('\n')
        elif k in ('em', 'strong', 'strike', 'link', 'image'):
            out.append(plain(it.children))
        elif k == 'reflink':
            out.append(plain(it.children) if it.children is not None else (it.spelled if it.rec is not None else it.label))
        elif k == 'code':
            out.append(it.content)
        elif k == 'autolink':
            out.append(it.url)
        elif k == 'html':
            out.append(it.raw)
        elif k == 'escape':
            out.append(it.ch + it.tail)
        elif k == 'entity':
            out.append(it.dec)
        elif k == 'emphsrc':
            out.append(re.sub(r'[*_]', '', it.s))
    return ''.join(out)


def attr(v):
    return html.escape(v, quote=True)


def inline_html(items, res=None):
    out = []
    for it in items:
        k = it.kind
        if k == 'text':
            out.append(esc(it.s))
        elif k == 'sp':
            out.append(' ')
        elif k == 'soft':
            out.append('\n')
        elif k == 'hard':
            out.append('<br />\n')
        elif k == 'em':
            out.append('<em>' + inline_html(it.children, res) + '</em>')
        elif k == 'strong':
            out.append('<strong>' + inline_html(it.children, res) + '</strong>')
        elif k == 'strike':
            out.append('<del>' + inline_html(it.children, res) + '</del>')
        elif k == 'code':
            out.append('<code>' + esc(it.content) + '</code>')
        elif k == 'link':
            t = ' title="%s"' % attr(it.title) if it.title else ''
            out.append('<a href="%s"%s>%s</a>' % (attr(it.dest), t, inline_html(it.children, res)))
        elif k == 'image':
            t = ' title="%s"' % attr(it.title) if it.title else ''
            out.append('<img src="%s" alt="%s"%s />' % (attr(it.dest), attr(plain(it.children)), t))
        elif k == 'reflink':
            hit = res.lookup(it.spelled) if (res is not None and it.rec is not None) else None
            if it.rec is None or hit is None:
                bang = '!' if it.image else ''
                if it.rec is None:
                    out.append(esc(bang + '[' + it.label + ']' + ('[]' if it.form == 'collapsed' else '')))
                else:
                    raise AssertionError('defined label did not resolve in the model: %r' % it.spelled)
                continue
            dest, title = hit
            text_html = inline_html(it.children, res) if it.form == 'full' else esc(it.spelled)
            text_plain = plain(it.children) if it.form == 'full' else it.spelled
            t = ' title="%s"' % attr(title) if title else ''
            if it.image:
                out.append('<img src="%s" alt="%s"%s />' % (attr(dest), attr(text_plain), t))
            else:
                out.append('<a href="%s"%s>%s</a>' % (attr(dest), t, text_html))
        elif k == 'autolink':
            u = it.url
            is_email = ':' not in u.split('@')[0] if '@' in u else False
            href = ('mailto:' + u) if is_email else u
            out.append('<a href="%s">%s</a>' % (attr(href), esc(u)))
        elif k == 'html':
            out.append(it.raw)
        elif k == 'escape':
            out.append(esc(it.ch + it.tail))
        elif k == 'entity':
            out.append(esc(it.dec))
        elif k == 'emphsrc':
            from ..oracle import emphasis
            out.append(emphasis.model(it.s))
        else:
            raise AssertionError(k)
    return ''.join(out)


def blocks_html(bs, res, tight=False):
    out = []
    for b in bs:
        k = b.kind
        if k == 'para':
            out.append(inline_html(b.inl, res) if tight else '<p>%s</p>' % inline_html(b.inl, res))
        elif k in ('atx', 'setext'):
            out.append('<h%d>%s</h%d>' % (b.level, inline_html(b.inl, res), b.level))
        elif k == 'hr':
            out.append('<hr />')
        elif k == 'fence':
            lang = md_unescape(b.info.split()[0]) if b.info.split() else ''
            cls = ' class="language-%s"' % attr(lang) if lang else ''
            out.append('<pre><code%s>%s</code></pre>' % (cls, esc(''.join(l + '\n' for l in b.lines))))
        elif k == 'icode':
            out.append('<pre><code>%s</code></pre>' % esc(''.join(l + '\n' for l in b.lines)))
        elif k == 'quote':
            out.append('<blockquote>\n%s\n</blockquote>' % blocks_html(b.children, res))
        elif k == 'list':
            tag = 'ol' if b.ordered else 'ul'
            a = ' start="%d"' % b.start if b.ordered and b.start != 1 else ''
            items = []
            for it in b.items:
                if not it.children:
                    items.append('<li></li>')
                else:
                    items.append('<li>\n%s\n</li>' % blocks_html(it.children, res, tight=not b.a['loose_eff']))
            out.append('<%s%s>\n%s\n</%s>' % (tag, a, '\n'.join(items), tag))
        elif k == 'table':
            al = [{None: 'left', 'left': 'left', 'center': 'center', 'right': 'right'}[x] for x in b.aligns]
            h = '<thead>\n<tr>\n%s</tr>\n</thead>\n' % ''.join(
                '<th align="%s">%s</th>\n' % (a, inline_html(c, res)) for a, c in zip(al, b.header))
            body = ''
            for row in b.rows:
                cells = (list(row) + [[] for _ in range(len(al) - len(row))])[:len(al)]     # GFM: excess cells are ignored
                body += '<tr>\n%s</tr>\n' % ''.join('<td align="%s">%s</td>\n' % (a, inline_html(c, res)) for a, c in zip(al, cells))
            out.append('<table>\n%s<tbody>\n%s</tbody>\n</table>' % (h, body))
        elif k == 'htmlblock':
            out.append('\n'.join(b.lines))
        elif k == 'defs':
            pass
        else:
            raise AssertionError(k)
    return '\n'.join(x for x in out)


def document_html(doc):
    res = Resolver(doc)
    body = blocks_html(doc.children, res)
    return (body + '\n') if body else '', res


def flat_blocks(doc):
    """[(path, kind, node)] for every block, in document order (used for line numbers and outlines)."""
    out = []

    def walk(children, path):
        for i, b in enumerate(children):
            p = path + (i,)
            if b.kind == 'defs':
                continue
            out.append((p, b.kind, b))
            if b.kind == 'quote':
                walk(b.children, p)
            elif b.kind == 'list':
                for j, it in enumerate(b.items):
                    out.append((p + (j,), 'item', it))
                    walk(it.children, p + (j,))
    walk(doc.children, ())
    return out
