"""G4: grammar documents.  A choice tape is decoded into a model tree of
CommonMark/GFM constructs *with all spelling choices recorded in the nodes*; the
writer then emits Markdown lines deterministically and records the 1-based line on
which each block starts.  Independent back-ends (vf/gen/dochtml.py) produce the
expected HTML, definitions and outline from the same tree.

Soundness rules of the writer (each from a spec paragraph) are in need_blank()
and in the inline generator; the generator is conservative: it only writes
spellings whose parse is unambiguous under the specification.

Options (dict):
  canonical   every spelling choice takes the MarkdownRenderer's normal form
  reflow_safe vocabulary restricted for the reflow property (C10)
  refs        reference-mode: labels, definitions at drawn placements (C07)
  outline     headings form an outline with plain-word titles (C19)
  exclude     set of switch names that remove input classes of open findings
"""
import re

from .tape import Tape

WORDS = ['alpha', 'beta', 'gamma', 'delta', 'eps', 'zeta', 'eta', 'theta', 'iota', 'kappa', 'x', 'y', 'Foo', 'Bar', 'baz2', 'q9',
         'lorem', 'ipsum', 'dolor', 'sit', 'amet', 'I', 'a', 'Zed', 'mu', 'nu', 'xi', 'omicron', 'rho', 'sigma', 'tau', 'word',
         # zero-width space, soft hyphen, word joiner inside a word: not whitespace, must stay where they are
         'zero\u200bwidth', 'soft\u00adhyphen', 'word\u2060joiner',
         # just outside the autolink syntax (scheme of 1 or 33 characters): literal text
         '<a:b>', '<abcdefghijklmnopqrstuvwxyz0123456:x>']
TRAIL = ['', '', '', '', ',', '.', ';', '!', '?', ':']
CODE_CONTENT = ['C:\\ /s', 'x\\ y', 'end\\', 'x', 'a b', '*a*', '<b>', 'a`b', '`', '[x](y)', 'a\\b', '&amp;', ' x', 'x ', ' x ', '1 < 2', '``', 'a``b`c', '_', '  ',
                'f(x)', '"q"', "it's", 'a|b', '$x$', '#', '>', 'x  y']
DESTS = ['/url', 'http://a.b/c?d=e&f=g', '#frag', 'a_b', '/p(q)r', 'x', '/a%20b', 'mailto:a@b.c', '/u*v*', 'https://x.y/z_w_v',
         '/ä', '/with"quote', "/with'apos"]
SPACE_DESTS = ['/my url', 'a b c', '/p)q', '', ' b ', '  /lead', 'trail  ']
TITLES = ['', '', '', 't', 'two words', "it's", 'say "hi"', 'a (b) c', 'x&y', '<tag>', 'ä']
AUTOLINKS = ['ws://h/p', 'im:x', 'a2:b', 'abcdefghijklmnopqrstuvwxyz012345:x', 'http://example.com/a?b=c', 'https://x.y/z_w', 'mailto:a@b.c', 'irc://foo.bar:2233/baz', 'a+b.c-d:e', 'http://a.b/*c*']
EMAILS = ['a@b.c', 'foo.bar@example.com', 'x+y@z-w.org']
RAW_INLINE = ['<span class="a">', '</span>', '<br/>', '<!-- c -->', '<b>', '<a href="x" title=\'y\'>', '<?php x ?>', '<![CDATA[ x ]]>',
              '<i data-x=1>', '<!DOCTYPE x>', '<!doctype html>', '<!a>']
RAW_INLINE_ML = ['<span\nclass="b">', '<!-- two\nlines -->', '<a href="x"\ntitle="y">']     # a tag or comment may run over lines
ESCAPABLE = list('*_`[]()#<>\\!&"\'-+.{}=$%^,/:;?@')      # no '|' (table cells re-escape pipes), no '~' (finding F42)
TITLE_ESCAPABLE = ESCAPABLE + ['~']
ENTITIES = [('&amp;', '&'), ('&lt;', '<'), ('&gt;', '>'), ('&quot;', '"'), ('&copy;', '©'), ('&#35;', '#'), ('&#x22;', '"'),
            ('&ouml;', 'ö'), ('&#42;', '*'), ('&nbsp;', '\u00a0'),
            # numeric references at the edges: the C1 range stands for itself, NUL / surrogates / beyond Unicode for U+FFFD
            ('&#128;', '\x80'), ('&#x96;', '\x96'), ('&#0;', '\ufffd'), ('&#xD800;', '\ufffd'), ('&#1114112;', '\ufffd'), ('&#X1F600;', '\U0001F600')]
INFOS = ['', '', 'py', 'c++ extra', 'sh', 'x-y', 'a&amp;b', 'lang\\*']
CODE_LINES = ['x = 1', '  indented', '', '*not em*', '<b>', '> q', '- l', '    four', '# h', 'a & b', '```', '~~~', '    ```', '    ~~~~~~', '1. x', '[a]: b',
              '| a |', '***', 'tail  ', '\\', '&amp;',
              # lines that begin like a closing fence but are not one (text after the run): they need no longer fence
              '```x', '~~~ y', '```` `', '~~~~~~ ~', '   ', '      ']
HTML_BLOCKS = [
    (6, ['<div>', 'text *x*', '</div>']), (2, ['<!-- c', '', 'more -->']), (1, ['<pre>', '  a', '', 'b', '</pre>']),
    (6, ['<table><tr><td>', 'x', '</td></tr></table>']), (3, ['<?php echo 1; ?>']), (7, ['<my-tag attr="v">', 'inner']),
    (4, ['<!DOCTYPE html>']), (4, ['<!doctype html>']), (4, ['<!x', 'y>']), (5, ['<![CDATA[', 'x', '', ']]>']), (1, ['<script>', 'a < b', '</script>']), (6, ['</section>']),
    (7, ['</custom>']), (6, ['<p align="x">', '*not emphasis*']), (2, ['<!-- one line -->']), (1, ['<style>p{}</style>']),
    (1, ['<textarea>', '', '</textarea>']), (6, ['<hr />']),
    # tag names are matched in any case
    (1, ['<pre\tclass="x">', '', 'a', '</pre>']), (1, ['<pre>', 'a', '', 'b </script></pre> c']), (1, ['<style>', '', 'p{}', '</TEXTAREA></style>']), (1, ['<SCRIPT>', '', 'a', '</SCRIPT>']), (1, ['<Pre>', '', '*x*', '</PRE>']), (6, ['<DIV>', 'y', '</DIV>']), (1, ['<STYLE>', '', 'p{}', '</style>']),
]
MARKER_LIKE = ['> q', '# h', '- l', '+ p', '1. x', '2) y', '***', '---', '[a]: b', '===', '>']
EXACT_LABELS = ['a\\]b', 'x\\\ny', 'p\\[q\\]', 'two\nlines', 'back\\\\slash', 'foo\\] bar\nbaz', 'm\\[n\no\\]']
LABELS = ['foo', 'bar', 'Baz', 'long label', 'x1', 'ẞtraße', 'Σίσυφος', 'mixed Case Label', 'q', 'long\u00a0label', 'x1\u2003']      # a label with a no-break space is another label than the one with a space


class N:
    __slots__ = ('kind', 'a')

    def __init__(self, kind, **a):
        self.kind = kind
        self.a = a

    def __getattr__(self, k):
        try:
            return self.a[k]
        except KeyError:
            raise AttributeError(k)

    def get(self, k, default=None):
        return self.a.get(k, default)

    def __repr__(self):
        return 'N(%s, %s)' % (self.kind, ', '.join('%s=%r' % kv for kv in self.a.items()))


class Ctx:
    def __init__(self, t, opts):
        self.t = t
        self.o = opts
        self.canonical = bool(opts.get('canonical'))
        self.reflow = bool(opts.get('reflow_safe'))
        self.exclude = set(opts.get('exclude') or ())
        self.blocks = 0
        self.max_blocks = opts.get('max_blocks', 40)
        self.labels = []      # reference mode: label records
        self.refs = bool(opts.get('refs'))
        self.outline = bool(opts.get('outline'))
        self.last_level = 0


# ---------------------------------------------------------------- inline generation

def gen_word(c):
    t = c.t
    return N('text', s=t.choice(WORDS) + t.choice(TRAIL))


def gen_inlines(c, depth=0, allow_link=True, allow_break=True, n=None, allow_html=True, plain=False):
    """A sequence of inline items separated by single spaces / line breaks."""
    t = c.t
    n = n or 1 + t.below(5)
    items = []
    if c.refs and depth == 0 and allow_link and not plain and not c.reflow and not c.canonical and t.chance(8):
        # more than a thousand characters before whatever follows in the paragraph (offsets, length limits)
        items.append(N('text', s=' '.join(WORDS[(j * 7) % len(WORDS)] for j in range(230))))
    for i in range(n):
        k = t.below(100)
        if c.refs and allow_link and not plain and t.chance(80):
            it = gen_reflink(c, depth, allow_break)
        elif plain or k < 42:
            it = gen_word(c)
        elif k < 50 and depth < 2:
            it = N('em', children=gen_inlines(c, depth + 1, allow_link, False, 1 + t.below(3), allow_html))
        elif k < 58 and depth < 2:
            it = N('strong', children=gen_inlines(c, depth + 1, allow_link, False, 1 + t.below(3), allow_html))
        elif k < 66:
            it = N('code', content=t.choice(CODE_CONTENT), extra=0 if c.canonical else t.weighted([(3, 0), (1, 1), (1, 2)]))
            if c.reflow and (_code_delim(it)[0] >= 3 or it.content != it.content.strip(' ') or '  ' in it.content):
                # a code span delimiter of three or more backticks could end up at the start of a line and open a fence;
                # code whose content has edge or double spaces is a recorded finding (spaces are lost when it is wrapped)
                it = N('code', content='a b', extra=0)
            if (allow_break and not c.canonical and not c.reflow and 'tabs' not in c.exclude and t.chance(40)
                    and it.content == it.content.strip() and ' ' in it.content and '  ' not in it.content
                    and it.content.split(' ', 1)[1][:1].isalnum()):
                it.a['nl'] = True           # the code span runs over two lines
        elif k < 74 and allow_link:
            it = gen_link(c, depth, image=False)
        elif k < 78 and allow_link:
            it = gen_link(c, depth, image=True)
        elif k < 82 and allow_link:
            it = N('autolink', url=t.choice(EMAILS) if t.chance(60) else t.choice(AUTOLINKS))
        elif k < 86 and allow_html and c.reflow and 'reflow_html' not in c.exclude:
            # tags that cannot open an HTML block wherever the reflow puts them (no block-level names, comments or
            # processing instructions; a tag broken over two lines is never complete on its line)
            it = N('html', raw=t.choice(['<i>', '</i>', '<kbd>', '</kbd>', '<span\nclass="k">', '<i\nid=k>', '</span>'] if allow_break
                                        else ['<i>', '</i>', '<kbd>', '</kbd>']))
        elif k < 86 and allow_html and not c.reflow:
            it = N('html', raw=t.choice(RAW_INLINE + RAW_INLINE_ML if (allow_break and not c.canonical) else RAW_INLINE))
        elif k < 89 and depth < 1:
            it = N('strike', children=gen_inlines(c, depth + 1, False, False, 1 + t.below(2), False, plain=t.chance(128)))
        elif k < 93:
            it = N('escape', ch=t.choice(ESCAPABLE), tail=t.choice(WORDS) if t.chance(128) else '')
        elif k < 96 and 'charref' not in c.exclude:
            src, dec = t.choice(ENTITIES)
            it = N('entity', src=src, dec=dec)
        elif c.refs and allow_link:
            it = gen_reflink(c, depth, allow_break)
        else:
            it = gen_word(c)
        items.append(it)
    out = []
    for i, it in enumerate(items):
        if i:
            k = t.below(100)
            if allow_break and k < 4 and not c.canonical and not c.reflow and 'cont_indent_marker' not in c.exclude:
                # a continuation line indented four or more columns stays paragraph text whatever it looks like
                out.append(N('soft', indent=4 + t.below(3)))
                out.append(N('text', s=t.choice(MARKER_LIKE)))
                out.append(N('sp'))
            elif allow_break and k < 15:
                out.append(N('soft', indent=0 if c.canonical else t.weighted([(4, 0), (1, 1), (1, 3), (1, 5)])))
            elif allow_break and k < 22:
                style = t.choice(['  ', '   ', '\\']) if not c.canonical else t.choice(['  ', '\\'])
                if style != '\\' and out and out[-1].kind == 'text' and 'backslash_break' not in c.exclude and t.chance(50):
                    # a literal backslash directly before a hard break made of spaces
                    out[-1] = N('text', s=out[-1].s + '\\')
                out.append(N('hard', style=style, indent=0 if c.canonical else t.weighted([(4, 0), (1, 2)])))
            elif _can_glue(items[i - 1], it) and not c.canonical and t.chance(45):
                pass                     # no space between the two items
            else:
                out.append(N('sp'))
        starts_line = (not out) or out[-1].kind in ('soft', 'hard')
        if starts_line and (out or it.kind in ('html', 'autolink')) and it.kind != 'text':
            # a line of a paragraph (other than possibly the first) starts with a plain word, so that it
            # cannot be read as the start of another block
            out.append(gen_word(c))
            out.append(N('sp'))
        if it.kind == 'code' and not out and _code_delim(it)[0] >= 3:
            out.append(gen_word(c))
            out.append(N('sp'))
        if it.kind == 'reflink' and not it.image and out and out[-1].kind == 'sp' and not c.canonical and not c.reflow and t.chance(12):
            # '!' and a code span directly before the bracket: the bracket still opens a link, not an image
            out.append(N('text', s='!'))
            out.append(N('code', content='a', extra=0))
        out.append(it)
        if it.kind == 'reflink' and it.rec is not None and it.form == 'shortcut' and not c.canonical and not c.reflow and t.chance(16):
            # a bracket that opens no link label does not stop a shortcut reference
            out.append(N('text', s=t.choice(['[', '[x', '[x[y'])))
    return out


_GLUE_KINDS = {'text', 'code', 'link', 'image', 'autolink', 'html'}


def _can_glue(a, b):
    """May b follow a without a space?  Only combinations whose reading does not depend on flanking rules."""
    if a.kind not in _GLUE_KINDS or b.kind not in _GLUE_KINDS:
        return False
    if a.kind == 'text' and b.kind == 'text':
        return False
    if a.kind == 'code' and b.kind == 'code':
        return False                      # the two delimiter runs would merge
    if a.kind == 'text' and a.s.endswith('!') and b.kind in ('link', 'reflink'):
        return False                      # would spell an image
    if a.kind == 'html' or b.kind == 'html':
        return a.kind in ('text', 'code') and b.kind in ('text', 'code', 'html') or b.kind in ('text',) and a.kind == 'html'
    if b.kind == 'autolink' and a.kind == 'text':
        return True
    if a.kind == 'autolink' and b.kind == 'text':
        return True
    if a.kind in ('link', 'image') and b.kind in ('link', 'image'):
        return b.kind == 'link' and False
    if a.kind in ('link', 'image') and b.kind == 'text':
        return True
    if a.kind == 'text' and b.kind in ('link', 'image'):
        return not (b.kind == 'link' and a.s.endswith('!'))
    if a.kind == 'text' and b.kind == 'code':
        return True
    if a.kind == 'code' and b.kind == 'text':
        return True
    return False


def gen_link(c, depth, image):
    t = c.t
    children = gen_inlines(c, depth + 1, False, False, 1 + t.below(2), False)
    if image and t.chance(128):
        children = [gen_word(c)]
    if not c.canonical and not c.reflow and t.chance(20):
        children = children + [N('sp'), N('text', s=t.choice(['[9]', '[8 [7]]', '[]']))]     # balanced brackets inside the link text
    if not image and not c.canonical and not c.reflow and t.chance(24):
        # an image as (part of) the link text; links may not nest, images may
        children = children[:1] + [N('sp'), N('image', children=[gen_word(c)], dest=t.choice(['/img.png', 'i_j.png']), title='',
                                              angle=False, tq=None, tsep=1)]
    title = t.choice(TITLES)
    if 'dest_escape' in c.exclude:
        title = title if title in ('', 't', 'two words', 'ä') else 't'
    if c.reflow and ' ' in title:
        title = 't'
    angle = False
    if t.chance(30) and not c.reflow:
        dest = t.choice(SPACE_DESTS)
        angle = True
    else:
        dest = t.choice(DESTS)
        if 'dest_escape' in c.exclude and re.search(r'["\'&*\\]', dest):
            dest = '/url'
        if '(' in dest or (not c.canonical and t.chance(40)):
            angle = t.chance(128)
    tq = t.choice(['"', "'", '(']) if title else None
    return N('image' if image else 'link', children=children, dest=dest, title=title, angle=angle or dest == '', tq=tq,
             tsep=1 if c.canonical else t.weighted([(4, 1), (1, 2)]))


def gen_reflink(c, depth, nl_ok=False):
    t = c.t
    rec = t.choice(c.labels) if c.labels and not t.chance(40) else None
    image = t.chance(50)
    if rec is not None and rec.get('exact'):
        if '\n' in rec['label'] and not nl_ok:
            rec = next((r for r in c.labels if not r.get('exact')), None)
        else:
            rec['used'] = True
            return N('reflink', form='full', label=rec['label'], spelled=rec['label'],
                     children=gen_inlines(c, depth + 1, False, False, 1 + t.below(2), False), image=image, rec=rec)
    if rec is None:
        # undefined label: stays literal text
        return N('reflink', form=t.choice(['shortcut', 'collapsed']), label='undefined ' + t.choice(WORDS), spelled=None,
                 children=None, image=image, rec=None)
    spelled = respell_label(t, rec['label'])
    form = t.choice(['full', 'collapsed', 'shortcut'])
    children = gen_inlines(c, depth + 1, False, False, 1 + t.below(2), False) if form == 'full' else None
    rec['used'] = True
    return N('reflink', form=form, label=rec['label'], spelled=spelled, children=children, image=image, rec=rec)


def respell_label(t, label):
    """A spelling of the label that matches after case folding and whitespace collapsing."""
    k = t.below(9)
    if k == 0:
        return label
    if k >= 6:
        # padding inside the brackets is stripped before labels are compared
        return [' ' + label, label + ' ', '  ' + label + ' '][k - 6]
    if k == 1:
        return label.upper() if label.upper().casefold() == label.casefold() else label
    if k == 2:
        return label.lower() if label.lower().casefold() == label.casefold() else label
    if k == 3:
        return label.replace(' ', '   ')
    if k == 4:
        return label.swapcase() if label.swapcase().casefold() == label.casefold() else label
    return label.replace('ẞ', 'ss').replace('ß', 'SS') if ('ẞ' in label or 'ß' in label) else label.title() if label.title().casefold() == label.casefold() else label


_EMPH_SYMS = ['a', 'a', 'b', ' ', ' ', '*', '*', '*', '_', '_', '.', ',', '(', ')', '\u00e9', '\u2014', '\u20ac', '\u00a9', '\u2192']      # incl. symbols (category S: not punctuation)


def gen_emph_src(t):
    """'x ' + up to 16 symbols: never a block start, no edge whitespace"""
    body = ''.join(t.choice(_EMPH_SYMS) for _ in range(2 + t.below(15)))
    return ('x ' + ' '.join(body.split())).rstrip()


# ---------------------------------------------------------------- block generation

def gen_blocks(c, depth, n, in_item=False, in_quote=False, tight=False):
    t = c.t
    out = []
    for _ in range(n):
        if c.blocks >= c.max_blocks or (out and t.exhausted()):
            break                # (an exhausted tape would only add minimal 'alpha' paragraphs)
        c.blocks += 1
        k = t.below(100)
        if c.outline and not tight and t.chance(150):
            k = 30 + t.below(14)       # outline mode: a heading (ATX or setext) more often
        if tight:
            b = N('para', inl=gen_inlines(c, allow_break=True))
        elif k < 30 and k >= 27 and c.refs and not c.canonical and not c.reflow and not tight:
            # looks like a link reference definition but is none (text after the title on its last line; the title began
            # on the destination's line, so not even the first line stands as a definition): a paragraph, nothing defined
            fake = t.choice(['[nodef]: /url "title" junk', '[nodef]: /url "title\nmore" junk', '[nodef]: /url (t) (u)',
                             "[nodef]: /url 'one\ntwo\nthree' x", '[nodef]: /url "unclosed', '[nodef]: /u v'])
            parts = fake.split('\n')
            inl = []
            for pi, part in enumerate(parts):
                if pi:
                    inl.append(N('soft', indent=0))
                inl.append(N('text', s=part))
            b = N('para', inl=inl)
        elif k < 30:
            if k < 3 and not c.canonical and not c.reflow and not c.outline and 'emphsrc' not in c.exclude:
                # a paragraph of delimiter runs, letters and punctuation; its reading is the emphasis model's (C06's oracle)
                b = N('para', inl=[N('emphsrc', s=gen_emph_src(t))])
            else:
                b = N('para', inl=gen_inlines(c))
        elif k < 38:
            b = gen_atx(c)
        elif k < 44:
            b = gen_setext(c)
        elif k < 50:
            b = gen_hr(c)
        elif k < 58:
            b = gen_fence(c)
        elif k < 62 and not in_item:
            lines = [t.choice([x for x in CODE_LINES if x.strip()]) for _ in range(1 + t.below(3))]
            if len(lines) >= 2 and not c.canonical and not c.reflow and t.chance(60):
                # chunks separated by blank lines; whatever whitespace such a line has beyond the indentation is content
                lines.insert(1, t.choice(['', '', '  ', '     ']))
            b = N('icode', lines=lines)
        elif k < 73 and depth < 3:
            b = N('quote', children=gen_blocks(c, depth + 1, 1 + t.below(3), False, True) or [_filler()], markers=None,
                  lead_blank=0 if c.canonical else t.weighted([(8, 0), (1, 1), (1, 2)]))
            if b.children[-1].kind == 'fence' and not c.canonical and not c.reflow and t.chance(80):
                b.children[-1].a['unclosed'] = True        # the end of the quote closes it
        elif k < 88 and depth < 3:
            b = gen_list(c, depth, in_quote, nested=in_item)
        elif k < 94:
            b = gen_table(c)
        elif not c.reflow or True:
            kind, lines = t.choice(HTML_BLOCKS)
            b = N('htmlblock', htmlkind=kind, lines=list(lines))
        b.a.setdefault('indent', 0 if c.canonical else t.weighted([(6, 0), (1, 1), (1, 2), (1, 3)]))
        if b.kind in ('icode',):
            b.a['indent'] = 0
        out.append(b)
    return fix_seq(c, out, in_item)


def _filler():
    """stands in for content that the block budget cut off"""
    return N('para', inl=[N('text', s='filler')], indent=0)


def gen_atx(c):
    t = c.t
    level = 1 + t.below(6)
    if c.outline:
        level = outline_level(c)
        inl = outline_title(c, allow_empty=True)
    else:
        inl = gen_inlines(c, allow_break=False, n=1 + t.below(3)) if not t.chance(20) else []
    closing = '' if (c.canonical and False) else t.choice(['', '', '#', '###', '##'])
    if not c.outline and not c.canonical and not c.reflow and t.chance(10):
        # a heading whose text is a run of hashes: it needs a closing sequence after it to be text
        inl = [N('text', s=t.choice(['#', '##', '#######']))]
        closing = t.choice(['#', '##'])
    if not inl and 'empty_atx_closing' in c.exclude:
        closing = ''
    return N('atx', level=level, inl=inl, closing=closing, sp=1 if c.canonical else t.weighted([(4, 1), (1, 2), (1, 3)]),
             sp_tab=(not c.canonical and not c.reflow and t.chance(20)),
             csp=1 if c.canonical else t.weighted([(4, 1), (1, 3)]), trail='' if c.canonical else t.choice(['', '', '  ']))


TITLE_HTMLISH = ['AT&T', 'a<b', '"q"', "it's", 'R&D', '<', '&', 'a&b;', '&amp', '<3', 'Q&A;']
TITLE_WORDS = ['Intro', 'Usage', 'alpha', 'beta', 'Install', 'notes', 'API', 'x', 'Part', 'two', 'Background', 'more', 'Zed']


def outline_title(c, allow_empty=False):
    """1-4 plain words, some of them wrapped in emphasis / strong / code / link markup (plain text unchanged)."""
    t = c.t
    items = []
    if c.o.get('outline_rich') and allow_empty and t.chance(14):
        return []           # a heading without text (ATX only)
    for _ in range(1 + t.below(4)):
        w = N('text', s=t.choice(TITLE_WORDS))
        k = t.below(12)
        if c.o.get('outline_rich') and t.chance(70):
            # plain text that is significant in HTML or that looks like a character reference
            r = t.below(5)
            if r == 0:
                items.append(N('text', s=t.choice(TITLE_HTMLISH)))
            elif r == 1:
                src, dec = t.choice([e for e in ENTITIES if not e[1].isspace()])
                items.append(N('entity', src=src, dec=dec))
            elif r == 2:
                items.append(N('escape', ch=t.choice(c.o.get('outline_escapable', TITLE_ESCAPABLE)), tail=t.choice(['', 'amp;', 'lt;', 'x', '#35;'])))
            elif r == 3:
                items.append(N('code', content=t.choice(['<div>', '&amp;', 'a&b', 'x < y', '&lt;', '"q"', '~~gone~~', '*em*', '__s__', '[l](u)',
                                                         '![i](s)', '<b>x</b>', '1. x', '# h', '- x', '> q', '\\*', '$x$', '[[a|b]]']), extra=0))
            else:
                items.append(N('text', s=t.choice(TITLE_WORDS) + t.choice(['.', ',', ':', '!', '?', ';'])))
            if t.chance(40):
                # raw HTML around a word: the tags are not part of the heading's plain text
                items += [N('html', raw=t.choice(['<kbd>', '<span class="k">', '<!-- c -->', '<b>'])), N('text', s=t.choice(TITLE_WORDS)),
                          N('html', raw=t.choice(['</kbd>', '</span>', '<br/>', '</b>']))]
            continue
        if k == 0:
            w = N('em', children=[w])
        elif k == 1:
            w = N('strong', children=[w])
        elif k == 2:
            w = N('code', content=w.s, extra=0)
        elif k == 3:
            w = N('link', children=[w], dest='/url', title='', angle=False, tq=None, tsep=1)
        items.append(w)
    if c.o.get('outline_rich'):
        # a title neither starts nor ends with raw HTML (an HTML block start; edge spaces)
        if items[0].kind == 'html':
            items.insert(0, N('text', s=t.choice(TITLE_WORDS)))
        if items[-1].kind == 'html':
            items.append(N('text', s=t.choice(TITLE_WORDS)))
    return _respace(items)


def _respace(inl):
    out = []
    for x in inl:
        if x.kind in ('sp', 'soft', 'hard'):
            continue
        if out:
            out.append(N('sp'))
        out.append(x)
    return out


def outline_level(c):
    t = c.t
    if c.last_level == 0:
        lv = c.o.get('outline_top', 1)
    else:
        lv = t.weighted([(3, c.last_level), (3, min(6, c.last_level + 1)), (2, max(c.o.get('outline_top', 1), c.last_level - 1)),
                         (1, c.o.get('outline_top', 1))])
    c.last_level = lv
    return lv


def gen_setext(c):
    t = c.t
    level = 1 + t.below(2)
    if c.outline:
        level = outline_level(c)
        if level > 2:
            c.last_level = 0 if c.last_level == 0 else c.last_level
            return N('atx', level=level, inl=[gen_word(c)], closing='', sp=1, csp=1, trail='')
        inl = outline_title(c)
    else:
        inl = gen_inlines(c, n=1 + t.below(3))
        fixed = []
        for x in inl:
            if x.kind == 'hard' and (x.style != '\\' or True) and 'setext_hardbreak' in c.exclude:
                fixed.append(N('soft', indent=0))
            else:
                fixed.append(x)
        inl = fixed
    ch = '=' if level == 1 else '-'
    n = 3 if c.canonical else t.choice([1, 2, 3, 7, 20])
    if ch == '-' and n == 1:
        n = 2
    return N('setext', level=level, inl=inl, ulen=n, utrail='' if c.canonical else t.choice(['', '', '  ', '\t', ' \t ']),
             uindent=0 if c.canonical else t.weighted([(4, 0), (1, 2), (1, 3)]))


def gen_hr(c):
    t = c.t
    return N('hr', ch=t.choice('*-_'), n=t.choice([3, 3, 4, 10]), sep=t.choice(['', '', ' ', '  ']))


def gen_fence(c):
    t = c.t
    ch = t.choice('`~')
    lines = [t.choice(CODE_LINES) for _ in range(t.below(5))]
    info = t.choice(INFOS)
    if ch == '`' and '`' in info:
        info = 'py'
    if 'charref' in c.exclude and ('&' in info or '\\' in info):
        info = 'py'
    tilde_info = False
    if ch == '~' and not c.canonical and t.chance(24):
        info = t.choice(['~x', '~~~ y', '~'])       # an info string may begin with a tilde when a space separates it from the fence
        tilde_info = True
    n = t.choice([3, 3, 4, 6])
    # the fence must be longer than any run of its character that could close it
    for ln in lines:
        m = re.match(r'^ {0,3}(`+|~+) *$', ln)
        if m and m.group(1)[0] == ch:
            n = max(n, len(m.group(1)) + 1)
    return N('fence', ch=ch, n=n, info=info, isp=(t.choice([' ', '  ']) if tilde_info else t.choice(['', ' '])) if info and not c.canonical else '', lines=lines,
             cextra=0 if c.canonical else t.weighted([(4, 0), (1, 1), (1, 3)]), ctrail='' if c.canonical else t.choice(['', '', ' ']),
             unclosed=False)


def gen_list(c, depth, in_quote, nested=False):
    t = c.t
    ordered = t.chance(100)
    n_items = 1 + t.below(3)
    loose = t.chance(100)
    items = []
    for i in range(n_items):
        if t.chance(14) and 'empty_item' not in c.exclude:
            children = []     # empty item
        elif loose:
            children = gen_blocks(c, depth + 1, 1 + t.below(3), True, in_quote) or [_filler()]
        else:
            children = gen_blocks(c, depth + 1, 1, True, in_quote, tight=True) or [_filler()]
            if t.chance(70) and depth < 2 and c.blocks < c.max_blocks:
                c.blocks += 1
                sub = gen_list(c, depth + 1, in_quote, nested=True)
                sub.a['indent'] = 0
                children.append(sub)
        items.append(N('item', children=children, pad=1 if c.canonical else t.weighted([(5, 1), (2, 2), (1, 3), (1, 4)]),
                       blank_first=(bool(children) and not c.canonical and t.chance(20)
                                    and children[0].kind not in ('icode',))))
    if loose and n_items == 1 and len(items[0].children) < 2:
        loose = False
    if nested and 'empty_last_item_then_sibling' in c.exclude and not items[-1].children:
        # recorded finding: blank lines after an empty last item of a nested list are not seen by the enclosing list
        items[-1].a['children'] = [N('para', inl=[N('text', s='filler')], indent=0)]
    return N('list', ordered=ordered, start=t.choice([1, 1, 1, 0, 7, 42, 999999999 - n_items + 1]) if ordered else None,
             delim=t.choice('.)'), bullet=t.choice('-+*'), loose=loose, items=items,
             zeros=0 if (c.canonical or c.reflow) else t.weighted([(6, 0), (1, 1), (1, 2)]))


def gen_table(c):
    t = c.t
    nc = 1 + t.below(3)

    def cell():
        if t.chance(25):
            return []
        inl = gen_inlines(c, 1, True, False, 1 + t.below(2), True)
        if t.chance(24) and not c.reflow:
            inl = inl + [N('sp'), N('text', s=t.choice(['|', 'a|', '|b', 'a|b', '||']))]      # literal pipes (written escaped)
        return inl

    return N('table', aligns=[t.choice([None, None, 'left', 'center', 'right'] if not c.canonical else [None, None, 'center', 'right'])
                              for _ in range(nc)],
             header=[cell() or [gen_word(c)] for _ in range(nc)],
             rows=[[cell() for _ in range(nc if not t.chance(40) else 1 + t.below(nc))] for _ in range(t.below(4))],
             dashes=[3 if c.canonical else t.choice([1, 3, 5]) for _ in range(nc)])


def ends_in_open_paragraph(b):
    """Does the block end in a paragraph that a following non-blank line could continue lazily?"""
    if b.kind == 'para':
        return True
    if b.kind == 'quote':
        return bool(b.children) and ends_in_open_paragraph(b.children[-1])
    if b.kind == 'list':
        last = b.items[-1]
        return bool(last.children) and ends_in_open_paragraph(last.children[-1])
    return False


def can_interrupt_paragraph(b):
    k = b.kind
    if k in ('atx', 'fence', 'quote'):
        return True
    if k == 'hr':
        return True          # spelled so that it is not a setext underline, see write
    if k == 'htmlblock':
        return b.htmlkind != 7
    if k == 'list':
        first = b.items[0]
        if not first.children or first.get('blank_first'):
            return False
        return (not b.ordered) or b.start == 1
    return False


def need_blank(a, b):
    """Is a blank line REQUIRED between sibling blocks a and b (spec-derived, conservative)?"""
    ak, bk = a.kind, b.kind
    if ak == 'htmlblock' and a.htmlkind in (6, 7):
        return True                      # ends only at a blank line
    if ak == 'table' or bk == 'table':
        return True                      # rows continue / header could join a paragraph
    if ak in ('quote', 'list'):
        # a block that can interrupt a paragraph also ends a container without a blank line; two quotes or two
        # lists would merge, everything else could be taken for (lazy) continuation text
        if bk == ak or bk in ('quote', 'list') and ak == 'list':
            return True
        return not can_interrupt_paragraph(b)
    if ak == 'defs' and bk in ('para', 'setext') and not a.get('blank_after', True):
        return False                     # text may directly follow a (complete) definition
    if ak == 'para' or ak == 'defs':
        return not can_interrupt_paragraph(b)
    if bk == 'icode':
        return ak != 'icode' and False or ak in ('para', 'defs')
    if ak == 'icode' and bk == 'icode':
        return True
    return False


def fix_seq(c, bs, in_item=False):
    """Drop adjacencies that cannot be written (forbidden, not merely needing a blank line)."""
    out = []
    for b in bs:
        if out:
            a = out[-1]
            if b.kind == 'icode' and a.kind in ('icode', 'list'):
                continue             # would merge / be taken into the list item
            if b.kind == 'icode' and a.kind == 'quote':
                pass
        out.append(b)
    if 'adjacent_lists' in c.exclude:
        # recorded finding F25 needs a last item with more than one child in front of the second list
        kept = []
        for b in out:
            # (inside a list item the blank line between the two lists is lost for the enclosing list as well)
            if b.kind == 'list' and kept and kept[-1].kind == 'list' and (in_item or len(kept[-1].items[-1].children) != 1):
                continue
            kept.append(b)
        out = kept
    if 'empty_last_item_then_sibling' in c.exclude:
        for i, b in enumerate(out[:-1]):
            if b.kind == 'list' and not b.items[-1].children:
                b.items[-1].a['children'] = [N('para', inl=[N('text', s='filler')], indent=0)]
    # sibling lists must differ in marker type, else they merge
    prev = None
    for b in out:
        if b.kind == 'list':
            if prev is not None and prev.ordered == b.ordered:
                if b.ordered:
                    if b.delim == prev.delim:
                        b.a['delim'] = ')' if prev.delim == '.' else '.'
                else:
                    if b.bullet == prev.bullet:
                        b.a['bullet'] = {'-': '+', '+': '*', '*': '-'}[prev.bullet]
            prev = b
        elif b.kind not in ('defs',):
            prev = None if b.kind != 'list' else prev
    return out


# ---------------------------------------------------------------- reference mode

def plan_labels(c):
    t = c.t
    n = 1 + t.below(5)
    # (reflow rewrites Unicode spaces as breaks -- recorded finding F16 -- so labels holding one stay out of reflow documents)
    pool = [x for x in LABELS if not (c.reflow and any(ch.isspace() and ch != ' ' for ch in x))]
    for i in range(n):
        label = pool.pop(t.below(len(pool)))
        defs = []
        for j in range(1 + t.weighted([(4, 0), (2, 1), (1, 2)])):
            dests = ['/url%d%d' % (i, j), 'http://h%d/p%d' % (i, j), '/a_b%d%d' % (i, j)]
            titles = ['', '', 't%d%d' % (i, j), 'two words %d' % j]
            if not c.reflow and not c.canonical:
                # the indentation of a title's continuation lines belongs to the title
                titles += ['two\nlines %d' % j, 'three\nshort\nlines', 'two\n  indented %d' % j]
                # source spellings with backslash escapes and character references (real ones and look-alikes)
                if 'dest_escape' not in c.exclude:
                    dests += ['/a\\*b%d%d' % (i, j), '/a\\\\*b%d%d' % (i, j)]
                    titles += ['t\\*%d' % j, 't\\\\*%d' % j, 'say \\"hi\\" %d' % j, 'ends in \\\\', '%d\\\\\\\\' % j]      # (the last two end in escaped backslashes)
                if 'charref' not in c.exclude:
                    dests += ['/u&amp;v%d%d' % (i, j), '/u&ltx;%d%d' % (i, j), '/u&copyb%d%d' % (i, j), '/q?a=1&amp;amp;b=%d%d' % (i, j)]
                    titles += ['&amp;lt; %d' % j, 'Q&A &copy %d' % j, '&#35;&ouml;&nosuch; %d' % j]
                    if 'dest_escape' not in c.exclude:
                        titles += ['x \\&amp; %d' % j, '\\&lt;\\&gt; %d' % j]        # an escaped '&' keeps the reference literal
                        dests += ['/e\\&amp;%d%d' % (i, j)]
            defs.append({'spelled': respell_label(t, label) if j else (label if t.chance(160) else respell_label(t, label)),
                         'dest': t.choice(dests), 'angle': t.chance(50), 'title': t.choice(titles),
                         'tq': t.choice(['"', "'", '(']), 'order': None,
                         # the destination and / or the title may stand on the next line (canonical: one line)
                         'dest_nl': (not c.canonical and not c.reflow and t.chance(40)),
                         'title_nl': (not c.canonical and not c.reflow and t.chance(50)),
                         'cont_indent': t.weighted([(3, 0), (1, 1), (1, 3)])})
        c.labels.append({'label': label, 'defs': defs, 'used': False})
    if not c.canonical and not c.reflow and t.chance(20):
        # a label at the length limit of 999 characters
        label = 'limit ' + 'x' * 993
        c.labels.append({'label': label, 'used': False,
                         'defs': [{'spelled': label, 'dest': '/limit', 'angle': False, 'title': '', 'tq': '"', 'order': None,
                                   'dest_nl': False, 'title_nl': False, 'cont_indent': 0}]})
    if not c.canonical and not c.reflow and 'dest_escape' not in c.exclude and t.chance(60):
        # a label with backslash escapes / a line ending inside: matched as written (labels are not unescaped),
        # used in full references only, where the label is not displayed
        label = t.choice(EXACT_LABELS)
        c.labels.append({'label': label, 'exact': True, 'used': False,
                         'defs': [{'spelled': label, 'dest': '/exact%d' % t.below(3), 'angle': False, 'title': t.choice(['', 'te']), 'tq': '"',
                                   'order': None, 'dest_nl': False, 'title_nl': False, 'cont_indent': 0}]})


def place_definitions(c, top):
    """Insert 'defs' blocks at drawn block boundaries of any container (loose contexts only)."""
    t = c.t
    slots = []

    def collect(children, loose_ok):
        if loose_ok:
            for i in range(len(children) + 1):
                if i and children[i - 1].kind == 'fence' and children[i - 1].get('unclosed'):
                    continue            # whatever follows an unclosed fence is its content
                slots.append((children, i))
        for b in children:
            if b.kind == 'quote':
                collect(b.children, True)
            elif b.kind == 'list':
                for it in b.items:
                    if it.children:
                        collect(it.children, b.loose)

    pending = [(rec, d) for rec in c.labels for d in rec['defs']]
    for rec, d in pending:
        slots[:] = []
        collect(top, True)
        children, i = slots[t.below(len(slots))]
        # never separate an item's leading 'blank_first' child or put definitions first in a list item
        node = N('defs', entries=[(rec, d)], indent=0 if c.canonical else t.weighted([(5, 0), (1, 2), (1, 3)]),
                 blank_after=c.canonical or c.reflow or not t.chance(100))
        children.insert(i, node)


# ---------------------------------------------------------------- document

def gen_document(t, opts=None):
    opts = dict(opts or {})
    c = Ctx(t, opts)
    if c.refs:
        plan_labels(c)
    top = gen_blocks(c, 0, 1 + t.below(opts.get('top_blocks', 5))) or [_filler()]
    if c.refs:
        place_definitions(c, top)
    if top and top[-1].kind == 'fence' and not c.canonical and t.chance(60):
        top[-1].a['unclosed'] = True
    doc = N('doc', children=top, lead_blank=0 if (c.canonical and False) else t.weighted([(6, 0), (1, 1), (1, 2)]),
            final_newline=True if c.canonical else not t.chance(40))
    return doc


def random_document_text(t, opts=None):
    from . import docwrite
    doc = gen_document(t, opts)
    return docwrite.write(doc, t)[0]


def _code_delim(it):
    """(delimiter length, padding) for a code span, computed from its content."""
    c = it.content
    runs = {len(m) for m in re.findall(r'`+', c)}
    n = 1
    while n in runs:
        n += 1
    n += it.get('extra', 0)
    while n in runs:
        n += 1
    pad = ''
    if c.startswith('`') or c.endswith('`') or (c.startswith(' ') and c.endswith(' ') and c.strip(' ') != ''):
        pad = ' '
    return n, pad
