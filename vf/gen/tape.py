"""Choice tapes: all randomness of the structured generators comes from a byte
string drawn by Hypothesis; a deterministic decoder consumes it.  Byte 0 always
selects the simplest alternative and an exhausted tape reads as zeros, so
deleting / zeroing bytes simplifies the decoded value (vf/shrink.py relies on it)."""
from hypothesis import strategies as st


class Tape:
    __slots__ = ('data', 'pos')

    def __init__(self, data):
        self.data = data
        self.pos = 0

    def byte(self):
        p = self.pos
        self.pos = p + 1
        return self.data[p] if p < len(self.data) else 0

    def below(self, n):
        """integer in [0, n); n <= 65536"""
        if n <= 1:
            return 0
        if n <= 256:
            return self.byte() % n
        return ((self.byte() << 8) | self.byte()) % n

    def choice(self, seq):
        return seq[self.below(len(seq))]

    def chance(self, num, den=256):
        """true with probability ~ num/den; byte 0 -> False"""
        return (255 - self.byte()) < num * 256 // den

    def between(self, lo, hi):
        return lo + self.below(hi - lo + 1)

    def weighted(self, pairs):
        """pairs = [(weight, value), ...]; first pair is the simplest"""
        total = sum(w for w, _ in pairs)
        x = self.below(total)
        for w, v in pairs:
            if x < w:
                return v
            x -= w
        return pairs[-1][1]

    def exhausted(self):
        return self.pos >= len(self.data)


def tapes(lo, hi):
    """Hypothesis strategy: byte strings whose length is uniform in [lo, hi]."""
    return st.integers(lo, hi).flatmap(lambda n: st.binary(min_size=n, max_size=n))


def hex_tapes(lo, hi):
    return tapes(lo, hi).map(bytes.hex)
