"""The bundled renderer configurations, constructible from plain data."""
import io

NAMES = ['Html', 'HtmlNoRaw', 'Markdown', 'LaTeX', 'Ast', 'Toc', 'GithubWiki', 'MathJax', 'Pygments', 'Jira', 'XWiki20']


def renderer_class(name):
    if name in ('Html', 'HtmlNoRaw'):
        from mistletoe.html_renderer import HtmlRenderer
        return HtmlRenderer
    if name == 'Markdown':
        from mistletoe.markdown_renderer import MarkdownRenderer
        return MarkdownRenderer
    if name == 'LaTeX':
        from mistletoe.latex_renderer import LaTeXRenderer
        return LaTeXRenderer
    if name == 'Ast':
        from mistletoe.ast_renderer import AstRenderer
        return AstRenderer
    if name == 'Toc':
        from mistletoe.contrib.toc_renderer import TocRenderer
        return TocRenderer
    if name == 'GithubWiki':
        from mistletoe.contrib.github_wiki import GithubWikiRenderer
        return GithubWikiRenderer
    if name == 'MathJax':
        from mistletoe.contrib.mathjax import MathJaxRenderer
        return MathJaxRenderer
    if name == 'Pygments':
        from mistletoe.contrib.pygments_renderer import PygmentsRenderer
        return PygmentsRenderer
    if name == 'Jira':
        from mistletoe.contrib.jira_renderer import JiraRenderer
        return JiraRenderer
    if name == 'XWiki20':
        from mistletoe.contrib.xwiki20_renderer import XWiki20Renderer
        return XWiki20Renderer
    raise KeyError(name)


HTML_FAMILY = ('Html', 'HtmlNoRaw', 'Toc', 'GithubWiki', 'MathJax', 'Pygments')


def make(name, opts=None):
    opts = dict(opts or {})
    if name == 'HtmlNoRaw':
        opts['process_html_tokens'] = False
    return renderer_class(name)(**opts)


def draw_opts(t, name):
    """Option values for a renderer, decoded from a tape (first alternative = defaults)."""
    o = {}
    if name in HTML_FAMILY:
        if t.chance(64):
            o['html_escape_double_quotes'] = True
        if t.chance(64):
            o['html_escape_single_quotes'] = True
        if name != 'HtmlNoRaw' and t.chance(40):
            o['process_html_tokens'] = False
    if name == 'Markdown':
        if t.chance(128):
            o['max_line_length'] = t.weighted([(3, 1 + t.below(40)), (1, 1 + t.below(120))])
        if t.chance(100):
            o['normalize_whitespace'] = True
    if name == 'Toc':
        if t.chance(128):
            o['depth'] = 1 + t.below(6)
        if t.chance(100):
            o['omit_title'] = False
    if name == 'Pygments':
        if t.chance(100):
            o['fail_on_unsupported_language'] = True
    return o


def to_form(text, form):
    if form == 'str':
        return text
    if text == '' and form in ('lines', 'lines-nl'):
        return []
    if form == 'lines':
        return text.split('\n')[:-1] if text.endswith('\n') else text.split('\n')
    if form == 'lines-nl':
        return [l + '\n' for l in (text.split('\n')[:-1] if text.endswith('\n') else text.split('\n'))]
    if form == 'file':
        return io.StringIO(text)
    raise KeyError(form)


FORMS = ['str', 'lines', 'lines-nl', 'file']


def render(name, opts, text, form='str'):
    from mistletoe import Document
    with make(name, opts) as r:
        doc = Document(to_form(text, form))
        return r.render(doc), doc
