"""C10 — reflowing to a maximum line length preserves meaning and honours the limit."""
import json
import re

from .. import renderers
from ..core import EnumPart, Fail, HypPart, Out, Prop, exc_sig
from ..gen.tape import hex_tapes
from ..oracle import astdump
from ..oracle.htmlnorm import normalize_ws
from . import c03, c09

UNBREAKABLE = ('CodeFence', 'BlockCode', 'HtmlBlock', 'Table', 'Heading')
_PREFIX = re.compile(r'^(?: {0,3}> ?| *(?:[-+*]|\d+[.)]) +| +)*')


def md_l(text, L, nw=False):
    return renderers.render('Markdown', {'max_line_length': L, 'normalize_whitespace': True} if nw else {'max_line_length': L}, text)[0]


def unbreakable_dumps(text):
    """Dumps (without line numbers) of the blocks that must not be re-broken, in document order."""
    from mistletoe import Document
    with renderers.make('Html') as r:
        doc = Document(text)
    out = []
    stack = [doc]
    while stack:
        t = stack.pop()
        if type(t).__name__ in UNBREAKABLE:
            out.append(_ws_titles(json.loads(json.dumps(astdump.dump(t, with_lines=False)))))
            continue
        ch = t.children
        if ch:
            stack.extend(reversed(list(ch)))
    return out


def _ws_titles(d):
    """titles of reference links are wrapped like text: compare them whitespace-collapsed"""
    name, attrs, kids = d
    if isinstance(attrs.get('title'), str):
        attrs = dict(attrs, title=' '.join(attrs['title'].split()))
    if '#header' in attrs:
        attrs = dict(attrs)
        attrs['#header'] = _ws_titles(attrs['#header'])
    return [name, attrs, None if kids is None else [_ws_titles(k) for k in kids]]


def exempt_lines(text):
    """1-based numbers of the lines of text that belong to blocks that cannot be re-broken
    (code, HTML blocks, tables, ATX headings, thematic breaks, setext underlines)."""
    from mistletoe import Document
    lines = set()
    with renderers.make('Markdown') as r:
        doc = Document(text)
        stack = [doc]
        while stack:
            t = stack.pop()
            name = type(t).__name__
            ln = getattr(t, 'line_number', None)
            if name == 'CodeFence':
                n = 2 + t.children[0].content.count('\n')
                lines.update(range(ln, ln + n))
            elif name == 'BlockCode':
                lines.update(range(ln, ln + t.children[0].content.count('\n')))
            elif name == 'HtmlBlock':
                lines.update(range(ln, ln + t.children[0].content.count('\n') + 1))
            elif name == 'Table':
                lines.update(range(ln, ln + 2 + len(t.children)))
            elif name in ('Heading', 'ThematicBreak'):
                lines.add(ln)
            elif name == 'SetextHeading':
                pass
            ch = t.children
            if ch and name not in ('Paragraph', 'SetextHeading', 'Heading', 'Table'):
                stack.extend(ch)
    return lines


def long_line_errors(out, L):
    errs = []
    ex = exempt_lines(out)
    for i, line in enumerate(out.split('\n'), 1):
        if len(line) <= L or i in ex:
            continue
        rest = _PREFIX.sub('', line, 1).rstrip(' ')
        if rest.endswith('\\'):
            rest = rest[:-1]
        rest = re.sub(r'<[^>\n]*>', lambda m: 'x' * len(m.group(0)), rest)
        rest = re.sub(r'(?<=`) +| +(?=`)', '', rest)          # code span padding is glued by design
        rest = re.sub(r'(?<!\\)((?:\\\\)*\\) +', r'\1x', rest)   # breaking after a backslash would write a hard line break
        if re.fullmatch(r'(=+|-+)', rest):
            continue                                           # setext underline
        if ' ' in rest:
            errs.append('line %d (%d > %d) still has a breakable space: %r' % (i, len(line), L, line))
    return errs


def check_text(text, L, labels=(), nt=False, nw=False):
    try:
        h1, f1 = c09.html_and_defs(text)
        base = unbreakable_dumps(text)
    except Exception as exc:
        return Out(skip='source raised ' + exc_sig(exc))
    try:
        out = md_l(text, L, nw)
    except Exception as exc:
        return Out(Fail('same-meaning', 'MarkdownRenderer raised ' + exc_sig(exc), markdown=text, L=L, normalize_whitespace=nw, error=repr(exc)), nt=nt, labels=labels)
    try:
        h2, f2 = c09.html_and_defs(out)
        after = unbreakable_dumps(out)
    except Exception as exc:
        return Out(Fail('same-meaning', 'reflowed text does not parse: ' + exc_sig(exc), markdown=text, L=L, normalize_whitespace=nw, reflowed=out), nt=nt, labels=labels)
    if normalize_ws(h1) != normalize_ws(h2):
        i, a, b = c03.first_diff(normalize_ws(h2), normalize_ws(h1))
        return Out(Fail('same-meaning', 'html differs', markdown=text, L=L, normalize_whitespace=nw, reflowed=out, after_at=a, before_at=b), nt=nt, labels=labels)
    def ws(f):
        return {k: [v[0], ' '.join(v[1].split())] for k, v in f.items()}
    if ws(f1) != ws(f2):
        return Out(Fail('same-meaning', 'definitions differ', markdown=text, L=L, normalize_whitespace=nw, reflowed=out, before=f1, after=f2), nt=nt, labels=labels)
    if base != after:
        return Out(Fail('unbreakable-blocks', 're-broken', markdown=text, L=L, normalize_whitespace=nw, reflowed=out), nt=nt, labels=labels)
    errs = long_line_errors(out, L)
    if errs:
        return Out(Fail('line-length', 'breakable space left', markdown=text, L=L, normalize_whitespace=nw, reflowed=out, errors=errs[:4]), nt=nt, labels=labels)
    try:
        out2 = md_l(out, L, nw)
    except Exception as exc:
        return Out(Fail('idempotent', 'second reflow raised ' + exc_sig(exc), markdown=text, L=L, normalize_whitespace=nw, reflowed=out), nt=nt, labels=labels)
    if out2 != out:
        return Out(Fail('idempotent', 'second reflow differs', markdown=text, L=L, normalize_whitespace=nw, first=out, second=out2), nt=nt, labels=labels)
    return Out(nt=nt, labels=labels)


class Documents(HypPart):
    name = 'documents'
    budget = {'quick': 24000, 'thorough': 1200000}
    rule = ('G4 documents over the reflow-safe vocabulary (no word or construct that could be read as a block marker at the start of a '
            'line, no raw inline HTML, no titles with spaces, no character references) nested to depth 4, with emphasis, code spans, links, '
            'images, hard breaks and link definitions; x L in 1..120 (weighted towards 1..40) x normalize_whitespace (on in a third of the cases); clauses: whitespace-normalised HTML and '
            'definitions unchanged, unbreakable blocks unchanged, no breakable space on a line longer than L, idempotent; non-trivial = a '
            'paragraph or setext heading longer than L inside a container; distinct = distinct (tape, L)')
    required_labels = {'wrapped-in-container': 0.1, 'normalize_whitespace:True': 0.2}

    def strategy(self, tier):
        def to_case(h):
            b = bytes.fromhex(h)
            x = b[-1]
            L = 1 + (b[-2] % 40 if x % 4 else b[-2] % 120)
            return {'tape': b[:-2].hex(), 'opts': {}, 'L': L, 'nw': (x >> 2) % 3 == 0}
        return hex_tapes(22, 500 if tier == 'quick' else 1500).map(to_case)

    def describe(self, case):
        opts = {'exclude': c03.Documents().excludes() + c09.RT_EXCLUDES, 'reflow_safe': True,
                'refs': bool(int(case['tape'][:2] or '0', 16) % 3 == 0)}
        return 'L=%s normalize_whitespace=%s\n%s' % (case.get('L'), bool(case.get('nw')), c03.build(case, opts)[1])

    def check(self, case):
        L = case.get('L')
        if not isinstance(L, int) or not 1 <= L <= 120:
            return Out(skip='malformed case')
        opts = {'exclude': c03.Documents().excludes() + c09.RT_EXCLUDES, 'reflow_safe': True,
                'refs': bool(int(case['tape'][:2] or '0', 16) % 3 == 0)}
        try:
            doc, text, exp, res = c03.build(case, opts)
        except (ValueError, KeyError, TypeError) as exc:
            return Out(skip='malformed case: %r' % (exc,))
        nt = False

        def walk(children, depth):
            nonlocal nt
            for b in children:
                if b.kind in ('para', 'setext') and depth >= 1:
                    from ..gen import docwrite
                    if len(docwrite.inline_md(b.inl)) > L:
                        nt = True
                elif b.kind == 'quote':
                    walk(b.children, depth + 1)
                elif b.kind == 'list':
                    for it in b.items:
                        walk(it.children, depth + 1)
        walk(doc.children, 0)
        nw = bool(case.get('nw'))
        labels = ('L:%s' % ('1-10' if L <= 10 else '11-40' if L <= 40 else '41-120'), 'normalize_whitespace:%s' % nw) + (('wrapped-in-container',) if nt else ())
        return check_text(text, L, labels, nt, nw)


CURATED = [
    ("> Devouring Time, blunt thou the lion's paws,\n> And make the earth devour her own sweet brood;\n> > When Dawn strides out\n", 30),
    ("1. List item\n2. A second list item including:\n   * Nested list.\n     This is a continuation line\n", 25),
    ("A short paragraph  \n  without any\\\nvery long\nwords.\n", 80),
    ("# A long ATX heading that must stay on one line\n\n```\ncode that is long and must stay\n```\n\n| a long | table row |\n|---|---|\n", 10),
    ("> - quoted *list item* with `inline code` and a [link](/url 't') to wrap\n", 12),
    ("Setext heading with several words\n===\n\n    indented code stays\n", 8),
    # a backslash before a space is a literal backslash: no line may end there (F78)
    ("a\\ b c and d:\\ e\\\\ f\n\n> - path c:\\ or d:\\ `x\\ y` end\n", 6),
    # runs of one to five backslashes before the space: odd runs end in a literal backslash, even ones do not
    ("one\\ two\\\\ three\\\\\\ four\\\\\\\\ five\\\\\\\\\\ six\n", 9),
]


class Curated(EnumPart):
    name = 'curated'
    no_shrink = True
    rule = 'hand-written documents x every L in 1..60 x normalize_whitespace'

    def shards(self, tier):
        return 4

    def items(self, tier, k, n):
        idx = 0
        for text, _ in CURATED:
            for L in range(1, 61):
                idx += 1
                if idx % n == k:
                    yield {'markdown': text, 'L': L}
                    yield {'markdown': text, 'L': L, 'nw': True}

    def check(self, case):
        return check_text(case['markdown'], case['L'], (), True, bool(case.get('nw')))

    def known_class(self, case, fail):
        return case.get('class')


class C10(Prop):
    id = 'C10'
    rule = Documents.rule
    assumptions = (
        'meaning = HtmlRenderer output under the spec normaliser with every whitespace run outside <pre> collapsed, plus link definitions',
        'spaces inside code spans count as breakable (documented renderer behaviour); code span padding, angle-bracket destinations and '
        'autolinks are glued; lines of code blocks, HTML blocks, tables, ATX headings and thematic breaks are exempt from the length clause',
    )

    def parts(self):
        return [Documents(), Curated()]


PROP = C10()
