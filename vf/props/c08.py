"""C08 — HTML output is well-formed and document text cannot inject markup."""
from .. import renderers
from ..core import EnumPart, Fail, HypPart, Out, Prop, exc_sig
from ..gen import pools
from ..gen.tape import Tape, tapes
from ..oracle import htmlscan, skeleton

PAYLOAD = ['"', "'", '<', '>', '&', '&quot;', '&#34;', '&#x22;', '&amp;', '&lt;', '&gt;', '\\"', "\\'", '\\<', '\\>', '\\&',
           'onerror=', 'onmouseover=', 'alert(1)', 'javascript:', '%22', '%3C', '%', 'x', 'a', '/', ':', '@', '=', '(', ')',
           '[', ']', '\\[', '\\]', '`', '*', '_', '<b>', '</a>', '<script>', '-->', '&#', ';', '#', '?', 'é', '\\', ' ',
           # what a template engine or str.format would react to
           'data:image/png;base64,', 'data:text/html,', 'javascript:', 'vbscript:', 'file:///',
           '{', '}', '{}', '{0}', '{inner}', '{target}', '{title}', '%s', '%(a)s', '$x', '${x}', '{{', '}}',
           # full-width and small-form look-alikes of the significant characters: ordinary text, unless something
           # normalises them (NFKC) after the escaping has been done
           '\uff02', '\uff07', '\uff1c', '\uff1e', '\uff06', '\ufe64', '\ufe65', '\ufe60', '\uff1cscript\uff1e', '\uff02\uff1e']


def payload(t, lo=1, hi=6, no_space=False, avoid='', frags=None):
    parts = [t.choice(frags or PAYLOAD) for _ in range(t.between(lo, hi))]
    s = ''.join(parts)
    if no_space:
        s = s.replace(' ', '')
    for c in avoid:
        s = s.replace(c, '')
    return s


def hostile(t, frags=None):
    """One Markdown snippet that puts a payload where the renderer writes an attribute or escaped text."""
    k = t.below(13)
    p1 = payload(t, no_space=True, frags=frags)
    p2 = payload(t, frags=frags)
    p3 = payload(t, frags=frags)
    if k == 0:
        return '[%s](%s)' % (p3.replace(']', ''), p1)
    if k == 1:
        return '![%s](%s)' % (p3.replace(']', ''), p1)
    if k == 2:
        return '[a](<%s> "%s")' % (payload(t, avoid='\n', frags=frags), p2)
    if k == 3:
        return '![%s](<%s> \'%s\')' % (p3, payload(t, avoid='\n', frags=frags), p2)
    if k == 4:
        return '<%s%s>' % (t.choice(['http:', 'foo:', 'mailto:', 'a+b:', 'x@', 'made-up-scheme:']), p1)
    if k == 5:
        if t.chance(170):
            # a well-formed e-mail autolink: the local part may hold ! # $ % & ' * + / = ? ^ _ ` { | } ~ -
            ok = [f for f in (frags or PAYLOAD) if f and all(c.isalnum() and c.isascii() or c in ".!#$%&'*+/=?^_`{|}~-" for c in f)]
            local = ''.join(t.choice(ok) for _ in range(t.between(1, 4))).strip('.') or 'a'
            return '<%s@%s>' % (local, t.choice(['b.c', 'example.com', 'x-y.org']))
        return '<%s@%s>' % (payload(t, 1, 3, no_space=True, frags=frags), payload(t, 1, 3, no_space=True, frags=frags))
    if k == 6:
        return '%s%s\ncode %s\n%s' % (t.choice(['```', '~~~', '````']), p2, p3, t.choice(['```', '~~~', '````']))
    if k == 7:
        return '[l]: %s "%s"\n\n[l] ![l] [%s][l]' % (p1 or 'u', p2, p3)
    if k == 8:
        return '[l]: <%s> (%s)\n\n![%s][l]' % (payload(t, avoid='\n', frags=frags), p2, p3)
    if k == 9:
        return '`%s` and ``%s``' % (p2, p3)
    if k == 10:
        return '| %s | b |\n|:--|--:|\n| %s | [x](%s) |' % (p2, p3, p1)
    if k == 12:
        # one payload in a verbatim context and in escaped contexts: a result remembered per string must not cross over
        q = p2.replace('`', '').replace('\n', ' ').strip() or 'a_b'
        return '`%s` %s **%s**\n\n# %s\n\n`%s`' % (q, q, q, q, q)
    return '%s *%s* **%s** ~~%s~~\n# %s' % (p2, p3, p1, p2, p3)


def _yields_private_use(text, opts):
    """control rendering without any masking: does the document itself put private-use characters into the output
    (literally or through numeric character references)?  Then they cannot serve as placeholders for raw HTML."""
    from mistletoe import Document
    try:
        with renderers.make('Html', opts) as r:
            out0 = r.render(Document(text))
    except Exception:
        return False
    return any('\ue000' <= ch <= '\uf8ff' for ch in out0)


def check_case(case):
    from mistletoe import Document
    text, opts = case['text'], case.get('opts') or {}
    raw_on = opts.get('process_html_tokens', True)
    labels = ('raw-html:%s' % ('on' if raw_on else 'off'),)
    try:
        with renderers.make('Html', opts) as r:
            doc = Document(text)
            used = skeleton.mask_raw_html(doc) if raw_on else []
            out = r.render(doc)
            skeleton.neutralise(doc)
            out_neutral = r.render(doc)
    except RecursionError:
        return Out(skip='nesting too deep')
    except Exception as exc:
        return Out(skip='raised ' + exc_sig(exc))     # totality is C01's business
    events, problems, placeholders = htmlscan.scan(out)
    nt = any(len(e) > 2 and e[2] for e in events) or '&' in out
    if any(len(e) > 2 and e[2] for e in events):
        labels += ('has-attribute',)
    if used:
        labels += ('has-raw-html',)
    if problems:
        code, detail = problems[0]
        return Out(Fail('well-formed', code, text=text, opts=opts, detail=detail, output=out,
                        problems=[list(p) for p in problems[:6]]), nt=nt, labels=labels)
    if raw_on:
        seen = [ch for ch, _ in placeholders]
        if sorted(seen) != sorted(used) and _yields_private_use(text, opts):
            labels += ('placeholder-clause-not-applicable',)     # the document's own text contains placeholder characters
        elif sorted(seen) != sorted(used):
            return Out(Fail('raw-html-verbatim', 'placeholder count', text=text, opts=opts, output=out,
                            used=len(used), seen=len(seen)), nt=nt, labels=labels)
    events2, problems2, _ = htmlscan.scan(out_neutral)
    if problems2:
        return Out(Fail('well-formed', 'neutralised:' + problems2[0][0], text=text, opts=opts, output=out_neutral), nt=nt, labels=labels)
    if events != events2:
        i = next((k for k, (a, b) in enumerate(zip(events, events2)) if a != b), min(len(events), len(events2)))
        return Out(Fail('no-injection', 'skeleton differs', text=text, opts=opts, output=out, neutral_output=out_neutral,
                        first_difference=[list(events[i]) if i < len(events) else None,
                                          list(events2[i]) if i < len(events2) else None]), nt=nt, labels=labels)
    return Out(nt=nt, labels=labels)


def draw_opts(t):
    o = {}
    if t.chance(128):
        o['process_html_tokens'] = False
    if t.chance(80):
        o['html_escape_double_quotes'] = True
    if t.chance(80):
        o['html_escape_single_quotes'] = True
    return o


class Random(HypPart):
    name = 'random'
    budget = {'quick': 8000, 'thorough': 400000}
    rule = ('texts from pools G0-G4 and hostile snippets (payloads rich in quotes, brackets, ampersands, entities placed in link '
            'destinations, titles, alt texts, autolinks, info strings, reference definitions, code, table cells) x the three boolean '
            'options; non-trivial = output has an attribute or an escaped character; distinct = distinct (text, options)')
    required_labels = {'has-attribute': 0.2, 'raw-html:off': 0.2, 'has-raw-html': 0.03}

    def strategy(self, tier):
        return tapes(60, 700)

    def expand(self, drawn):
        t = Tape(drawn)
        while not t.exhausted():
            if t.chance(128):
                parts = [hostile(t) for _ in range(1 + t.below(3))]
                text = t.choice(['\n\n', '\n', ' ']).join(parts)
                if t.chance(50):
                    text = t.choice(['> ', '- ', '1. ']) + text
            else:
                _, text = pools.any_text(t, 300)
            yield {'text': text, 'opts': draw_opts(t)}

    def check(self, case):
        return check_case(case)


class Helpers(EnumPart):
    name = 'escape-helpers-all-codepoints'
    rule = ('escape_html_text (4 quote-option combinations) and escape_url on every Unicode scalar value, alone and between two '
            'letters: result free of < > (and of the quote characters that are to be escaped / of " for URLs), & only as escape head')

    def shards(self, tier):
        return 16

    def items(self, tier, k, n):
        step = 0x110000 // n + 1
        yield {'lo': k * step, 'hi': min(0x110000, (k + 1) * step)}

    def check(self, case):
        from mistletoe.html_renderer import HtmlRenderer
        rs = {}
        for dq in (False, True):
            for sq in (False, True):
                with HtmlRenderer(html_escape_double_quotes=dq, html_escape_single_quotes=sq) as r:
                    rs[(dq, sq)] = r
        bad = None
        count = 0
        for cp in range(case['lo'], case['hi']):
            if 0xD800 <= cp <= 0xDFFF:
                continue
            c = chr(cp)
            count += 1
            for (dq, sq), r in rs.items():
                for s in (c, 'a' + c + 'b'):
                    e = r.escape_html_text(s)
                    if '<' in e or '>' in e or (dq and '"' in e) or (sq and "'" in e) or not _amp_ok(e):
                        bad = bad or ('escape_html_text', cp, dq, sq, e)
            for s in (c, 'a' + c + 'b', c + c):
                e = HtmlRenderer.escape_url(s)
                if '<' in e or '>' in e or '"' in e or not _amp_ok(e):
                    bad = bad or ('escape_url', cp, None, None, e)
        self.count = count
        if bad:
            return Out(Fail('helpers', bad[0], codepoint=bad[1], double=bad[2], single=bad[3], result=bad[4]), nt=True)
        return Out(nt=True, labels=('codepoints:%d' % count,))


def _amp_ok(e):
    i = e.find('&')
    while i != -1:
        if not e.startswith(htmlscan.ESCAPES, i):
            return False
        i = e.find('&', i + 1)
    return True


class HelperStrings(HypPart):
    name = 'escape-helpers-random-strings'
    budget = {'quick': 3000, 'thorough': 100000}
    rule = 'escape helpers on random concatenations of payload fragments and arbitrary characters'

    def strategy(self, tier):
        return tapes(20, 200)

    def expand(self, drawn):
        t = Tape(drawn)
        while not t.exhausted():
            s = ''.join(t.choice(PAYLOAD) if t.chance(200) else chr(t.below(0xD800)) for _ in range(1 + t.below(12)))
            yield {'s': s, 'dq': t.chance(128), 'sq': t.chance(128)}

    def check(self, case):
        from mistletoe.html_renderer import HtmlRenderer
        s, dq, sq = case['s'], case['dq'], case['sq']
        with HtmlRenderer(html_escape_double_quotes=dq, html_escape_single_quotes=sq) as r:
            e = r.escape_html_text(s)
        try:
            u = HtmlRenderer.escape_url(s)
        except UnicodeEncodeError:
            return Out(skip='not encodable')
        nt = any(c in s for c in '<>&"\'')
        if '<' in e or '>' in e or (dq and '"' in e) or (sq and "'" in e) or not _amp_ok(e):
            return Out(Fail('helpers', 'escape_html_text', s=s, dq=dq, sq=sq, result=e), nt=nt)
        if '<' in u or '>' in u or '"' in u or not _amp_ok(u):
            return Out(Fail('helpers', 'escape_url', s=s, result=u), nt=nt)
        return Out(nt=nt)


class C08(Prop):
    id = 'C08'
    rule = Random.rule
    assumptions = (
        'well-formedness is judged by an own strict tokenizer (vf/oracle/htmlscan.py) against the renderer\'s fixed vocabulary',
        'with raw HTML on, HtmlBlock/HtmlSpan content is replaced by private-use placeholders in the parsed tree before rendering',
        'injection is additionally tested metamorphically: rendering the same tree with all text neutralised must give the same tag/attribute skeleton',
        'attribute values must additionally contain "&" only as the head of one of the five escapes the renderer uses',
    )

    def selfcheck(self):
        """The scanner must reject known-bad outputs and accept a known-good one (guards against a vacuous oracle)."""
        bad = ['<p><img src="x"onerror="alert(1)" alt="a" /></p>\n', '<p>a < b</p>\n', '<p>a &x; b</p>\n', '<ul>\n<li>a\n</ul>\n',
               '<script>x</script>\n', '<p><a href="u" onclick="x">a</a></p>\n', '<p>a<br>b</p>\n', '<p><em>a</p></em>\n',
               '<p>a > b</p>\n', '<p><a href="a>b">x</a></p>\n', '<p><a href=\'u\'>x</a></p>\n']
        for out in bad:
            if not htmlscan.scan(out)[1]:
                raise RuntimeError('HTML scanner accepts %r' % out)
        good = ('<h1>t</h1>\n<p>a <em>b</em> &amp; <code>&lt;c&gt;</code> <a href="/u?a=1&amp;b=2" title="t">l</a><br />\n'
                '<img src="i.png" alt="x" title="&quot;q&quot;" /></p>\n<ol start="3">\n<li>x</li>\n</ol>\n<hr />\n'
                '<table>\n<thead>\n<tr>\n<th align="left">h</th>\n</tr>\n</thead>\n<tbody>\n</tbody>\n</table>\n'
                '<pre><code class="language-py">x &quot; y\n</code></pre>\n')
        probs = htmlscan.scan(good)[1]
        if probs:
            raise RuntimeError('HTML scanner rejects a well-formed sample: %r' % (probs,))
        return 'scanner self-test: %d bad outputs rejected, 1 good accepted' % len(bad)

    def parts(self):
        return [Random(), Helpers(), HelperStrings()]


PROP = C08()
