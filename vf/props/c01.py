"""C01 — parsing and rendering are total and terminate for every input."""
import itertools
import json
import os
import re
import signal
import string
import threading
import time

from .. import core, env, renderers
from ..core import EnumPart, Fail, HypPart, Out, Prop, exc_sig
from ..gen import pools
from ..gen.tape import Tape, tapes

SOFT_LIMIT_S = 10.0      # the property's per-input budget for <= 4 KB
CONFIRM_LIMIT_S = 30.0   # a candidate is re-run alone with this budget before it is reported
HARD_LIMIT_S = 75.0      # uninterruptible hang (C code): the parent saves the case and kills the worker

_DELIMS = set(string.punctuation + string.digits)
_MARKER_CHARS = set('>-+*.)')
_INLINE_NEST = re.compile(r'\*+|_+|\[|\]|~~|\$|\{\{|\(')


class _Timeout(BaseException):
    pass


def _on_alarm(signum, frame):
    raise _Timeout()


def nesting_bound(text):
    """Upper bound, computed from the text alone, on the nesting depth any parse of it can have:
    block depth of a line <= container-marker characters on it + indentation/2 (each level needs
    a marker on the line or >= 2 columns of indentation); inline depth of a paragraph-sized chunk
    <= half the number of delimiter runs / brackets in it."""
    block = 0
    for line in text.split('\n'):
        stripped = line.lstrip(' \t')
        indent = len(line[:len(line) - len(stripped)].expandtabs(4))
        m = sum(1 for c in line if c in _MARKER_CHARS)
        block = max(block, m + indent // 2)
    inline = 0
    for chunk in re.split(r'\n[ \t>]*\n', text):
        inline = max(inline, (len(_INLINE_NEST.findall(chunk)) + 1) // 2)
    return block + inline + 2


def admissible(exc, case):
    """The documented refusals, each with an independent necessary condition on the input."""
    text, name, opts = case['text'], case['renderer'], case.get('opts') or {}
    if isinstance(exc, RuntimeError) and name == 'LaTeX' and 'Unable to find delimiter' in str(exc):
        if _DELIMS <= set(text):
            return 'latex-no-verb-delimiter'
    if type(exc).__name__ == 'ClassNotFound' and name == 'Pygments' and opts.get('fail_on_unsupported_language'):
        if '```' in text or '~~~' in text:
            return 'pygments-unknown-language'
    if isinstance(exc, RecursionError) and nesting_bound(text) > 100:
        return 'recursion-nesting>100'
    return None


_TRIVIAL = {'Document', 'Paragraph', 'RawText', 'LineBreak', 'BlankLine'}


def has_structure(doc):
    stack = [doc]
    n = 0
    while stack and n < 20000:
        t = stack.pop()
        n += 1
        if type(t).__name__ not in _TRIVIAL:
            return True
        ch = t.children
        if ch:
            stack.extend(ch)
    return False


def run_case(case, limit):
    """-> (kind, payload, elapsed): kind in ok/exc/timeout"""
    t0 = time.time()
    old = signal.signal(signal.SIGALRM, _on_alarm)
    signal.setitimer(signal.ITIMER_REAL, limit)
    try:
        try:
            out, doc = renderers.render(case['renderer'], case.get('opts'), case['text'], case.get('form', 'str'))
            res = ('ok', (out, doc))
        finally:
            signal.setitimer(signal.ITIMER_REAL, 0)
    except _Timeout:
        res = ('timeout', None)
    except Exception as exc:
        res = ('exc', exc)
    finally:
        signal.setitimer(signal.ITIMER_REAL, 0)
        signal.signal(signal.SIGALRM, old)
        core.reset_library_state()
    return res[0], res[1], time.time() - t0


_current = {'case': None, 't0': 0.0}


def _watchdog():
    while True:
        time.sleep(5)
        c, t0 = _current['case'], _current['t0']
        if c is not None and time.time() - t0 > HARD_LIMIT_S:
            os.makedirs(core.REPLAY_DIR, exist_ok=True)
            path = os.path.join(core.REPLAY_DIR, 'C01-hang-%d.json' % os.getpid())
            with open(path, 'w') as f:
                json.dump({'property': 'C01', 'part': c.get('_part', 'random'), 'case': {k: v for k, v in c.items() if k != '_part'},
                           'failure': {'clause': 'termination', 'sig': 'termination:hard-hang',
                                       'detail': 'no return and no signal delivery within %ds' % HARD_LIMIT_S}}, f)
            os._exit(3)


_wd_started = []
_hb = {'file': None}


def _hb_dir(parent_pid):
    import tempfile
    return os.path.join(tempfile.gettempdir(), 'vf-c01-heartbeat-%d' % parent_pid)


def _heartbeat(case, part_name):
    """Tell the parent which case this process is working on: the regex engine neither handles signals nor
    releases the GIL, so a hang inside it can only be detected (and ended) from another process."""
    d = os.environ.get('VF_C01_HEARTBEAT_DIR')
    if not d:
        return                     # no monitor is watching (replay, witness run)
    f = _hb['file']
    if f is None or _hb.get('pid') != os.getpid():
        os.makedirs(d, exist_ok=True)
        f = _hb['file'] = open(os.path.join(d, '%d.json' % os.getpid()), 'w')
        _hb['pid'] = os.getpid()
    f.seek(0)
    f.write(json.dumps({'t0': time.time(), 'part': part_name, 'case': case}) if case is not None else '{}')
    f.truncate()
    f.flush()


class HangMonitor:
    """Parent-side: kills a worker that has been on one case for HARD_LIMIT_S seconds and saves that case."""

    def __init__(self):
        self.dir = _hb_dir(os.getpid())
        os.makedirs(self.dir, exist_ok=True)
        os.environ['VF_C01_HEARTBEAT_DIR'] = self.dir      # inherited by the forked workers
        self._stop = threading.Event()
        self.thread = threading.Thread(target=self._loop, daemon=True)
        self.thread.start()

    def _loop(self):
        import signal as _signal
        while not self._stop.wait(3):
            try:
                names = os.listdir(self.dir)
            except OSError:
                continue
            for name in names:
                path = os.path.join(self.dir, name)
                try:
                    with open(path) as f:
                        hb = json.load(f)
                except (OSError, ValueError):
                    continue
                if hb and time.time() - hb.get('t0', time.time()) > HARD_LIMIT_S:
                    pid = int(name.split('.')[0])
                    os.makedirs(core.REPLAY_DIR, exist_ok=True)
                    with open(os.path.join(core.REPLAY_DIR, 'C01-hang-%d.json' % pid), 'w') as f:
                        json.dump({'property': 'C01', 'part': hb.get('part', 'random'), 'case': hb['case'],
                                   'failure': {'clause': 'termination', 'sig': 'termination:no result within %ds (worker killed)' % HARD_LIMIT_S,
                                               'detail': 'no return within %d s; the process did not react to the alarm signal' % HARD_LIMIT_S}}, f)
                    try:
                        os.kill(pid, _signal.SIGKILL)
                    except OSError:
                        pass
                    try:
                        os.unlink(path)
                    except OSError:
                        pass

    def stop(self):
        import shutil
        self._stop.set()
        os.environ.pop('VF_C01_HEARTBEAT_DIR', None)
        shutil.rmtree(self.dir, ignore_errors=True)


def check_case(case, part_name):
    if not _wd_started:
        th = threading.Thread(target=_watchdog, daemon=True)
        th.start()
        _wd_started.append(th)
    _heartbeat(case, part_name)
    labels = ('renderer:' + case['renderer'], 'form:' + case.get('form', 'str'))
    if 'pool' in case:
        labels += ('pool:' + case['pool'],)
    _current['case'] = dict(case, _part=part_name)
    _current['t0'] = time.time()
    try:
        kind, payload, elapsed = run_case(case, SOFT_LIMIT_S)
        if kind == 'timeout' or elapsed > SOFT_LIMIT_S:
            # candidate only: confirm alone-ish with a larger budget before reporting
            _current['t0'] = time.time()
            kind2, payload2, elapsed2 = run_case(case, CONFIRM_LIMIT_S)
            if kind2 == 'timeout' or elapsed2 > SOFT_LIMIT_S * 2:
                return Out(Fail('termination', 'no result within %ds (confirmed with %ds)' % (SOFT_LIMIT_S, CONFIRM_LIMIT_S),
                                elapsed_first=elapsed, elapsed_second=elapsed2, renderer=case['renderer'],
                                text_len=len(case['text'])), nt=True, labels=labels + ('timeout-confirmed',))
            kind, payload, elapsed = kind2, payload2, elapsed2
            labels += ('timeout-candidate-not-confirmed',)
    finally:
        _current['case'] = None
        _heartbeat(None, part_name)
    if kind == 'exc':
        why = admissible(payload, case)
        if why:
            return Out(nt=True, labels=labels + ('admissible:' + why,))
        return Out(Fail('no-raise', '%s [%s]' % (exc_sig(payload), case['renderer']), error=repr(payload)[:300],
                        renderer=case['renderer'], opts=case.get('opts'), form=case.get('form'), text=case['text']),
                   nt=True, labels=labels)
    out, doc = payload
    if not isinstance(out, str):
        return Out(Fail('returns-str', 'returned %s [%s]' % (type(out).__name__, case['renderer']), text=case['text']),
                   nt=True, labels=labels)
    return Out(nt=has_structure(doc), labels=labels)


class Random(HypPart):
    name = 'random'
    budget = {'quick': 14000, 'thorough': 700000}
    rule = ('texts from pools G1 raw strings / G2 line fragments / G3 spec mutations / G4 grammar documents / G5 pumped '
            'snippets (<= 4 KB) x the 11 renderer configurations with drawn options x input form; non-trivial = parse has a '
            'token other than Paragraph/RawText/LineBreak or an (admissible) exception was raised; distinct = distinct case')
    required_labels = {'pool:G5-pumped': 0.01, 'pool:G5-nested': 0.005, 'renderer:Jira': 0.03, 'renderer:Markdown': 0.03, 'form:file': 0.05}

    def strategy(self, tier):
        return tapes(60, 900)

    def expand(self, drawn):
        t = Tape(drawn)
        while not t.exhausted():
            if t.chance(30):
                pool, text = 'G5-pumped', pools.pumped(t, 4096)
            elif t.chance(12):
                pool, text = 'G5-nested', pools.nested_pump(t)
            elif t.chance(40):
                # payload-bearing snippets of the escaping properties: unusual characters in destinations, titles,
                # info strings, definitions, cells — the places where renderers format text into templates
                from . import c08, c17
                frags = c17.PAYLOAD if t.chance(128) else c08.PAYLOAD
                pool, text = 'G6-hostile', '\n\n'.join(c08.hostile(t, frags) for _ in range(1 + t.below(3)))
            else:
                pool, text = pools.any_text(t, 300)
            n_r = 1 + t.below(3)
            for _ in range(n_r):
                name = t.choice(renderers.NAMES)
                yield {'text': text, 'pool': pool, 'renderer': name, 'opts': renderers.draw_opts(t, name),
                       'form': t.weighted([(3, 'str'), (1, 'lines'), (1, 'lines-nl'), (1, 'file')])}

    def check(self, case):
        return check_case(case, self.name)

    def shrink_ok(self, case):
        return True


ALPHABET = ['*', '_', '`', '[', ']', '(', ')', '>', '-', ' ', '\n', 'a']


class Exhaustive(EnumPart):
    name = 'enum-12sym'
    rule = ('all strings over the 12 symbols * _ ` [ ] ( ) > - space newline a up to length 5 (quick) / 6 (thorough), each '
            'through HtmlRenderer and one other renderer chosen round-robin, input form rotating')

    lengths = {'quick': 5, 'thorough': 6}

    def items(self, tier, k, n):
        top = self.lengths[tier]
        idx = 0
        others = [x for x in renderers.NAMES if x != 'Html']
        for L in range(0, top + 1):
            for tup in itertools.product(ALPHABET, repeat=L):
                idx += 1
                if idx % n != k:
                    continue
                text = ''.join(tup)
                yield {'text': text, 'renderer': 'Html', 'opts': {}, 'form': renderers.FORMS[idx % 4]}
                yield {'text': text, 'renderer': others[(idx // n) % len(others)], 'opts': {}, 'form': 'str'}

    def check(self, case):
        return check_case(case, self.name)


class ExhaustiveHtml7(EnumPart):
    name = 'enum-12sym-len7-html'
    rule = 'thorough only: all 12-symbol strings of length exactly 7 through HtmlRenderer'

    def shards(self, tier):
        return env.nproc() if tier == 'thorough' else 1

    def items(self, tier, k, n):
        if tier != 'thorough':
            return
        prefixes = list(itertools.product(ALPHABET, repeat=2))
        for i, pre in enumerate(prefixes):
            if i % n != k:
                continue
            for tup in itertools.product(ALPHABET, repeat=5):
                yield {'text': ''.join(pre + tup), 'renderer': 'Html', 'opts': {}, 'form': 'str'}

    def check(self, case):
        return check_case(case, self.name)


class Atheris(core.Part):
    """Coverage-guided campaigns (libFuzzer through atheris) on the instrumented package; the C01 oracle runs inside
    the target (vf/fuzz_atheris.py).  Findings are re-verified in-process through the ordinary oracle; the final
    corpus of every campaign (the inputs that increased coverage) is replayed through it as well."""
    name = 'atheris'
    rule = ('libFuzzer campaigns: byte 0 -> renderer configuration, byte 1 -> options and input form, rest -> UTF-8 text; '
            'even shards start from an empty corpus, odd shards from the 652 spec inputs; evaluations = executions reported by '
            'libFuzzer + replay of each final corpus; non-trivial/distinct are counted on the replayed corpus only')
    runs = {'quick': 8000, 'thorough': 600000}

    def shards(self, tier):
        return 2 if tier == 'quick' else env.nproc()

    def check(self, case):
        return check_case(case, self.name)

    def run(self, tier, k, n, seed, acc):
        import re as _re
        import shutil
        import subprocess
        import sys
        import tempfile
        deps = os.path.join(env.VERIF_DIR, '.deps')
        if not os.path.isdir(os.path.join(deps, 'atheris')):
            acc.extra['atheris-not-installed'] += 1
            return
        from .. import fuzz_atheris_decode as fd
        tmp = tempfile.mkdtemp(prefix='vf-atheris-')
        try:
            corpus_dir = os.path.join(tmp, 'corpus')
            os.makedirs(corpus_dir)
            if k % 2 == 1:
                from ..gen import corpus as gcorpus
                for i, text in enumerate(gcorpus.spec_inputs()):
                    with open(os.path.join(corpus_dir, 'spec%03d' % i), 'wb') as f:
                        f.write(bytes([(i + k) % 256, (i * 7 + k) % 256]) + text.encode('utf-8'))
            envv = dict(os.environ, VF_FUZZ_OUT=tmp, PYTHONPATH=deps, VERIF_REPO=env.REPO, PYTHONHASHSEED='0')
            # dictionary of Markdown fragments (the regex engine gives libFuzzer no coverage gradient to discover them)
            dict_path = os.path.join(tmp, 'markdown.dict')
            with open(dict_path, 'w') as f:
                for tok in sorted(set(pools.INLINE + pools.BLOCK_OPENERS + pools.CONTAINER_PREFIXES + pools.SNIPPETS)):
                    b = tok.encode('utf-8')
                    if 0 < len(b) <= 24:
                        f.write('"%s"\n' % ''.join('\\x%02x' % c for c in b))
            cmd = [sys.executable, '-m', 'vf.fuzz_atheris', '-runs=%d' % self.runs[tier], '-max_len=1024', '-len_control=20',
                   '-dict=' + dict_path, '-artifact_prefix=' + tmp + os.sep,
                   '-seed=%d' % (seed * 64 + k + 1), '-timeout=60', '-rss_limit_mb=3000', '-print_final_stats=1', corpus_dir]
            proc = subprocess.run(cmd, cwd=env.VERIF_DIR, env=envv, stdout=subprocess.PIPE, stderr=subprocess.STDOUT, timeout=7200)
            log = proc.stdout.decode('utf-8', 'replace')
            m = _re.search(r'stat::number_of_executed_units:\s*(\d+)', log)
            acc.extra['libfuzzer-executions'] += int(m.group(1)) if m else 0
            acc.evaluations += int(m.group(1)) if m else 0
            cov = _re.findall(r'cov: (\d+)', log)
            if cov:
                acc.extra['max-coverage-counter'] = max(acc.extra['max-coverage-counter'], int(cov[-1]))
            for name in sorted(os.listdir(tmp)):
                if name.startswith('finding-'):
                    with open(os.path.join(tmp, name)) as f:
                        case = json.load(f)['case']
                    acc.observe(self, case, self.check(case))
            for name in sorted(os.listdir(tmp)):
                if name.startswith(('crash-', 'timeout-', 'oom-')):
                    with open(os.path.join(tmp, name), 'rb') as f:
                        case = fd.decode(f.read())
                    if case is not None:
                        out = self.check(case)
                        if out.fail is None:
                            acc.extra['libfuzzer-artifact-not-reproduced'] += 1
                        acc.observe(self, case, out)
            for name in sorted(os.listdir(corpus_dir)):
                with open(os.path.join(corpus_dir, name), 'rb') as f:
                    case = fd.decode(f.read())
                if case is not None:
                    acc.observe(self, case, self.check(case))
        finally:
            shutil.rmtree(tmp, ignore_errors=True)


class C01(Prop):
    id = 'C01'
    rule = ('random + mutated + generated + pumped texts x 11 renderer configurations x options x input forms, plus complete '
            'enumeration of short strings over a 12-symbol alphabet; oracle: returns str, exceptions only from the allow-list '
            'with an independent necessary condition, per-input watchdog (10 s, confirmed by a 30 s re-run)')
    assumptions = (
        'RecursionError is admissible only when a text-derived upper bound on nesting depth exceeds 100 (vf/props/c01.py:nesting_bound)',
        'LaTeX "no \\verb delimiter" refusal is admissible only if the input contains every candidate delimiter character',
        'Pygments ClassNotFound is admissible only with fail_on_unsupported_language=True and a fence in the input',
        'termination is judged by wall clock: 10 s per input (<= 4 KB), candidates re-run with 30 s; a time-out that is not '
        'confirmed is counted, not reported',
    )

    def start_monitor(self, violations_hook=None):
        return HangMonitor()

    def parts(self):
        return [Random(), Exhaustive(), ExhaustiveHtml7(), Atheris()]


PROP = C01()
