"""C09 — Markdown round trip: same meaning, idempotent, exact on normal form."""
from .. import renderers
from ..core import EnumPart, Fail, HypPart, Out, Prop, exc_sig
from ..gen import corpus
from ..gen.tape import hex_tapes
from ..oracle.htmlnorm import normalize
from . import c03

# writer switches for the input classes of the recorded round-trip findings
RT_EXCLUDES = ['charref', 'dest_escape', 'empty_item', 'cont_indent_marker']


def md(text, nw):
    return renderers.render('Markdown', {'normalize_whitespace': nw}, text)[0]


def html_and_defs(text):
    out, doc = renderers.render('Html', {}, text)
    return out, {k: list(v) for k, v in doc.footnotes.items()}


def roundtrip_failure(text, nw, exact=False):
    """-> Fail or None for the three clauses on one text"""
    try:
        h1, f1 = html_and_defs(text)
    except Exception as exc:
        return 'skip', 'html renderer raised ' + exc_sig(exc)
    try:
        m = md(text, nw)
    except Exception as exc:
        return Fail('same-meaning', 'MarkdownRenderer raised ' + exc_sig(exc), markdown=text, nw=nw, error=repr(exc))
    try:
        h2, f2 = html_and_defs(m)
    except Exception as exc:
        return Fail('same-meaning', 'rendered text does not parse: ' + exc_sig(exc), markdown=text, nw=nw, rendered=m)
    if normalize(h1) != normalize(h2):
        i, a, b = c03.first_diff(normalize(h2), normalize(h1))
        return Fail('same-meaning', 'html differs', markdown=text, nw=nw, rendered=m, after_at=a, before_at=b)
    if f1 != f2:
        return Fail('same-meaning', 'definitions differ', markdown=text, nw=nw, rendered=m, before=f1, after=f2)
    try:
        m2 = md(m, nw)
    except Exception as exc:
        return Fail('idempotent', 'second rendering raised ' + exc_sig(exc), markdown=text, nw=nw, rendered=m)
    if m2 != m:
        return Fail('idempotent', 'second rendering differs', markdown=text, nw=nw, first=m, second=m2)
    if exact and not nw:
        want = text if text.endswith('\n') or text == '' else text + '\n'
        if m != want:
            i, a, b = c03.first_diff(m, want)
            return Fail('normal-form', 'not reproduced byte for byte', markdown=text, rendered=m, rendered_at=a, source_at=b)
    return None


class SpecCorpus(EnumPart):
    name = 'spec-corpus'
    rule = ('the 652 spec examples x normalize_whitespace in {False, True}: clauses same-meaning and idempotent; examples recorded as '
            'findings are listed individually (class spec-roundtrip:<nw>:<example>)')

    def items(self, tier, k, n):
        ex = corpus.spec_examples()
        for i in range(k, len(ex), n):
            for nw in (False, True):
                yield {'example': ex[i]['example'], 'nw': nw}

    def check(self, case):
        e = corpus.spec_examples()[case['example'] - 1]
        r = roundtrip_failure(e['markdown'], case['nw'])
        labels = ('nw:%s' % case['nw'],)
        if isinstance(r, tuple):
            return Out(skip=r[1])
        nt = any(c in e['markdown'] for c in '>-*`[|#') or '\n\n' in e['markdown']
        if r is not None:
            r.detail['example'] = case['example']
            r.sig = '%s:example %d nw=%s' % (r.clause, case['example'], case['nw'])
            return Out(r, nt=nt, labels=labels)
        return Out(nt=nt, labels=labels)

    def known_class(self, case, fail):
        return 'spec-roundtrip:%s:%d' % (case['nw'], case['example'])


class Documents(HypPart):
    name = 'documents-free-spelling'
    budget = {'quick': 24000, 'thorough': 1200000}
    canonical = False
    rule = ('G4 documents (free spelling) x normalize_whitespace: html(md(t)) == html(t) under the spec normaliser, equal definitions, '
            'md(md(t)) == md(t); non-trivial = a container, table or definition; distinct = distinct (tape, option)')

    def strategy(self, tier):
        return hex_tapes(20, 500 if tier == 'quick' else 1500).map(lambda h: {'tape': h[:-2], 'opts': {}, 'nw': int(h[-2:], 16) % 3 == 0})

    def describe(self, case):
        opts = {'exclude': c03.Documents().excludes() + RT_EXCLUDES, 'refs': bool(int(case['tape'][:2] or '0', 16) % 4 == 0)}
        if self.canonical:
            opts['canonical'] = True
        return c03.build(case, opts)[1]

    def check(self, case):
        opts = {'exclude': c03.Documents().excludes() + RT_EXCLUDES, 'refs': bool(int(case['tape'][:2] or '0', 16) % 4 == 0)}
        if self.canonical:
            opts['canonical'] = True
        try:
            doc, text, exp, res = c03.build(case, opts)
        except (ValueError, KeyError, TypeError) as exc:
            return Out(skip='malformed case: %r' % (exc,))
        kinds, inl, depth = c03.model_labels(doc)
        nt = bool(kinds & {'quote', 'list', 'table', 'defs'})
        labels = ('nw:%s' % bool(case.get('nw')),) + tuple('block:' + k for k in sorted(kinds & {'quote', 'list', 'table', 'defs', 'fence', 'htmlblock'}))
        r = roundtrip_failure(text, bool(case.get('nw')), exact=self.canonical)
        if isinstance(r, tuple):
            return Out(skip=r[1])
        return Out(r, nt=nt, labels=labels)


class CanonicalDocuments(Documents):
    name = 'documents-normal-form'
    canonical = True
    budget = {'quick': 16000, 'thorough': 800000}
    rule = ('G4 documents written in the renderer\'s own normal form: additionally md(t) == t byte for byte (normalize_whitespace=False)')


CURATED = [
    # explicit texts: regressions of repaired defects (the witnesses of open findings live in known_findings.json)
    "```\n```\n", "~~~ info\n~~~\n\n- ```\n  ```\n", "| `a\\|b` | x\\|y |\n| - | -: |\n| c |\n",
    "> Foo\n> ---\n\nbar\n", "1. a\n\n   b\n2. c\n", "[Foo]: </my url> 'title'\n\n[foo] ![x][FOO]\n", "a  \nb\\\nc\n",
    "*a* __b__ ~~c~~ `` d`e `` <http://x.y> <b>\n", "    code\n\n    more\n\ntext\n", "- a\n  - b\n\n    c\n- d\n",
]


class Curated(EnumPart):
    name = 'curated'
    no_shrink = True
    rule = 'explicit texts x normalize_whitespace: the three clauses (exact reproduction where the text is in normal form)'

    def shards(self, tier):
        return 1

    def items(self, tier, k, n):
        for md_text in CURATED:
            for nw in (False, True):
                yield {'markdown': md_text, 'nw': nw}

    def check(self, case):
        r = roundtrip_failure(case['markdown'], case['nw'])
        if isinstance(r, tuple):
            return Out(skip=r[1])
        return Out(r, nt=True)

    def known_class(self, case, fail):
        return case.get('class')


class C09(Prop):
    id = 'C09'
    rule = Documents.rule
    assumptions = (
        'meaning = HtmlRenderer output under the spec normaliser plus Document.footnotes',
        'the generated domain excludes the input classes of the recorded findings (character references in text, escapes in link '
        'destinations / titles); on the spec corpus the affected examples are listed individually',
        'the normal form is specified in DESIGN.md 5/C09 and implemented by the canonical mode of the G4 writer',
    )

    def parts(self):
        return [SpecCorpus(), Documents(), CanonicalDocuments(), Curated()]


PROP = C09()
