"""C11 — results depend only on input and renderer, never on earlier library use.

Histories are plain data: a list of operations.  After every operation the oracle
compares (i) the active token lists with the defaults, (ii) a battery of probe
documents (HtmlRenderer output and a dump of a bare Document parse) with values
computed once in a fresh interpreter, (iii) the operation's own output with its
fresh-interpreter value."""
import itertools
import json
import os
import subprocess
import sys

from .. import core, env, renderers
from ..core import EnumPart, Fail, HypPart, Out, Prop, exc_sig
from ..gen.tape import Tape, tapes
from ..oracle import astdump

PROBES = [
    'Foo\n===\n\nBar\nbaz\n---\n',      # first: a block quote in a later probe would repair a stuck setext switch
    '## ##\n\n# #\n\n#\n\n# a #\n\n## b\n#\n\n### ###\n',     # empty headings first: stale class-level heading content shows here
    '```py\nx\n```\n\n```\ny\n```\n\n~~~ info more\nz\n',
    '<pre>\na\n\nb\n</pre>\n\n<div>\nx\n\ny\n\n<!-- c\n\nd -->\n\n<?php\n\n?>\n\n<span>s</span>\n',
    '> a\n> ---\n\nFoo\n===\n\nBar\n---\n\n> b\nc\n',
    'hello `code` world `` x ` y `` and `z\n',
    '*a **b** _c_* **x*y*z** __w__\n',
    '[foo]: /url "t"\n\n[foo] [bar][foo] ![foo] [nope]\n',
    '| a | b |\n|---|:-:|\n| 1 | `2` |\n\nx | y\n',
    '&amp; &lt; &#35; &copy; &nosuch; AT&T &ampx;\n',
    '- a\n- b\n\n  c\n1. x\n   - y\n\n    code\n',
    'hello world\n',
    # paragraph / lazy lines directly followed by HTML block starts: interruption depends on the active token set
    'some text\n<div>\nmore text\n\n- item\n<section>\n\n> quote\n<!-- c -->\nend\n\ntext\n<pre>\n',
    'line  \nbreak\\\nsoft\n~~s~~ <http://a.b> \\* $m$ [[w|p]] {{x}}\n',
]


def _same_string_probes(dest, title, order):
    """One string in every syntactic context that processes it differently (inline destination / title, reference
    definition, fence info string, autolink / text / code / raw HTML): a result remembered per string, or any other
    state keyed by content, shows as soon as a later context meets the string again.  Two families with the contexts
    in opposite order, so that each context is once the first and once a later one."""
    ctx = [
        '[a](%s "%s")\n' % (dest, title),
        "![a](<%s> '%s')\n" % (dest, title),
        '[r]: %s "%s"\n\n[r] ![r]\n' % (dest, title),
        '```%s %s\ncode\n```\n' % (dest, title),
        '<http://h%s> %s %s `%s %s` <a href="%s" title="%s">\n' % (dest, dest, title, dest, title, dest, title),
    ]
    return ctx if order > 0 else ctx[::-1]


# class-level parse options and formatter state: a table that interrupts a paragraph; a list item ended by a spaced
# thematic break (the path that toggles the option); highlighted code
# headings: one that ends a document with a closing sequence, one that begins a document without any text
PROBES += ['text\n\n## closing ##\n\n# last ####\n', '#\n\n###\n\ntext\n']
PROBES += ['| a [[b | c]] d | e]] |\n|---|---|\n| [[x | y | z]] |\n| p \\| q | `r | s` |\n', 'para\n| h | i |\n|---|---|\n| c | d |\n\nnext\n', '- item\n* * *\n\n- a\n- - -\nb\n| x |\n|---|\n']
# a table look-ahead that succeeds on a line which the parse then hands to another block type (indented code, an
# ordered item that does not start at 1, a lone tag), followed by documents that look ahead / read a table at the same line index
PROBES += ['intro\n    left | right\n|---|---|\n| 1 | 2 |\n', 'intro\n2. left | right\n|---|:-:|\n| 3 | 4 |\n',
           'intro\n<span title="a|b">\n|---|---|\n| 5 | 6 |\n', 'first line\nx | y\n', 'zero\none | two\n|---|---|\n| 7 | 8 |\n\nend\n']
# an empty item that is the last of its list because the next marker is of another type, then lists that are loose only
# through such an item followed by one of the same type (a parse buffer shared between items would carry the first verdict over)
PROBES += ['- x\n-\n\n* y\n\n1. x\n2.\n\n3) y\n', '* a\n*\n\n* c\n\n1. a\n2.\n\n3. c\n\n> -\n>\n> - q\n']
PROBES += _same_string_probes('/q?a=1&region=eu&copy', 'Q&A &copy 2020 \\* &amp', 1)
PROBES += _same_string_probes('/p?b=2&sect=9&reg', 'R&D &reg 1999 \\_ &lt', -1)

RENDERER_OPS = [
    ('Html', {}), ('Html', {'process_html_tokens': False}), ('Html', {'html_escape_double_quotes': True}),
    ('Markdown', {}), ('Markdown', {'max_line_length': 20}), ('Markdown', {'normalize_whitespace': True}),
    ('LaTeX', {}), ('Ast', {}), ('Toc', {}), ('GithubWiki', {}), ('MathJax', {}), ('Pygments', {}), ('Jira', {}), ('XWiki20', {}),
    ('Pygments', {'fail_on_unsupported_language': True}), ('Pygments', {'style': 'monokai'}), ('Pygments', {'style': 'default'}),
]
# documents on which an open renderer raises one of the documented refusals in the middle of rendering
REFUSED = {'Pygments': ['- a\n  ```nosuchlang\n  x\n  ```\n', '> 1. b\n>    ~~~ nosuchlang\n>    y\n>    ~~~\n'],
           'LaTeX': ['- a `` ' + ''.join(chr(c) for c in range(33, 127)) + ' `` b\n']}
SCHEME_PROGRAM = '(define x (* 2 21))\nx'

VIA = [('Html', {}), ('Ast', {}), ('Html', {'process_html_tokens': False}), ('Markdown', {})]
FAULT_KINDS = ['span-find', 'span-init', 'block-start', 'block-read', 'block-init']
TRIGGERS = ['a `code` BOOM b `c`\n', '> x\n>\n> BOOM\n', '# h\n\nBOOM\n', '```py\ncode\n```\nBOOM\n', '<pre>\nx\n</pre>\nBOOM\n',
            '- a\n\n  BOOM\n', '> - `q`\n>\n>   BOOM\n', '#\nBOOM\n', '> BOOM\n', '| a |\n|---|\n| BOOM `c` |\n',
            # the failure inside a container that has lazy continuation lines
            '> a\nlazy\n>\n> BOOM\n', '> - a\nlazy\n>\n> BOOM `c`\n', '- a\nlazy\n\n  BOOM\n', '> > a\nlazy\n> BOOM\n']


class Boom(Exception):
    pass


def _fault_class(kind):
    from mistletoe import block_token, span_token
    import re as _re
    if kind == 'span-find':
        class T(span_token.SpanToken):
            @classmethod
            def find(cls, string):
                raise Boom()
    elif kind == 'span-init':
        class T(span_token.SpanToken):
            pattern = _re.compile('BOOM')
            parse_inner = False
            parse_group = 0

            def __init__(self, match):
                raise Boom()
    elif kind == 'block-start':
        class T(block_token.BlockToken):
            @staticmethod
            def start(line):
                if 'BOOM' in line:
                    raise Boom()
                return False

            @staticmethod
            def read(lines):
                return [next(lines)]
    elif kind == 'block-read':
        class T(block_token.BlockToken):
            @staticmethod
            def start(line):
                return 'BOOM' in line

            @staticmethod
            def read(lines):
                raise Boom()
    elif kind == 'block-init':
        class T(block_token.BlockToken):
            def __init__(self, lines):
                raise Boom()

            @staticmethod
            def start(line):
                return 'BOOM' in line

            @staticmethod
            def read(lines):
                return [next(lines)]
    else:
        raise KeyError(kind)
    T.__name__ = 'Boom' + kind.title().replace('-', '')
    return T


def use_key(name, opts, d):
    return json.dumps([name, opts, d], sort_keys=True)


def render_or_refusal(name, opts, text, renderer=None):
    """Output, or a marker naming the documented refusal the renderer raised."""
    from mistletoe import Document
    try:
        if renderer is not None:
            return renderer.render(Document(text))
        return renderers.render(name, opts, text)[0]
    except Exception as exc:
        if type(exc).__name__ == 'ClassNotFound' and name == 'Pygments' and opts.get('fail_on_unsupported_language'):
            return '!!refused: ClassNotFound'
        if isinstance(exc, RuntimeError) and name == 'LaTeX' and 'Unable to find delimiter' in str(exc):
            return '!!refused: no verb delimiter'
        raise


def compute_value(key):
    """One reference value, computed in an interpreter that has done nothing else (see __main__)."""
    from mistletoe import Document
    kind = key[0]
    if kind == 'use':
        _, name, opts, d = key
        return render_or_refusal(name, opts, PROBES[d])
    if kind == 'bare':
        return astdump.dump(Document(PROBES[key[1]]))
    if kind == 'scheme':
        from mistletoe.contrib.scheme import Scheme, Program
        with Scheme() as r:
            return repr(r.render(Program(SCHEME_PROGRAM.split('\n'))))
    if kind == 'stdlib':
        import html as _html
        import mistletoe  # noqa: F401  (importing the library must not change the stdlib either)
        return [_html._charref.pattern, _html.unescape('&amp &lt;x &notit; &#35;')]
    raise KeyError(kind)


_BASELINE = None


def baseline():
    """Every reference value comes from its own fresh interpreter, so that a leak between two uses
    cannot contaminate the reference itself."""
    global _BASELINE
    if _BASELINE is None:
        import concurrent.futures
        keys = [['use', name, opts, d] for name, opts in RENDERER_OPS for d in range(len(PROBES))]
        keys += [['bare', d] for d in range(len(PROBES))] + [['scheme'], ['stdlib']]
        envv = dict(os.environ, VERIF_REPO=env.REPO, PYTHONHASHSEED='0', PYTHONDONTWRITEBYTECODE='1')

        def one(chunk):
            proc = subprocess.run([sys.executable, '-m', 'vf.props.c11', '--values', json.dumps(chunk)], cwd=env.VERIF_DIR, env=envv,
                                  stdout=subprocess.PIPE, stderr=subprocess.PIPE, timeout=600)
            if proc.returncode != 0:
                raise RuntimeError('baseline interpreter failed: ' + proc.stderr.decode()[-2000:])
            return json.loads(proc.stdout.decode())
        # one interpreter per value; each interpreter forks a pristine child per key (fork happens before any parse)
        chunks = [keys[i::16] for i in range(16)]
        with concurrent.futures.ThreadPoolExecutor(16) as ex:
            parts = list(ex.map(one, chunks))
        vals = {}
        for p in parts:
            vals.update(p)
        out = {'probes': [vals[json.dumps(['use', 'Html', {}, d], sort_keys=True)] for d in range(len(PROBES))],
               'uses': {use_key(k[1], k[2], k[3]): vals[json.dumps(k, sort_keys=True)] for k in keys if k[0] == 'use'},
               'bare': [vals[json.dumps(['bare', d], sort_keys=True)] for d in range(len(PROBES))],
               'scheme': vals[json.dumps(['scheme'], sort_keys=True)]}
        out['charref'], out['unescape'] = vals[json.dumps(['stdlib'], sort_keys=True)]
        _BASELINE = out
    return _BASELINE


def _values_main(keys):
    """Runs in a fresh interpreter: each key is evaluated in a forked child that has parsed nothing before."""
    env.assert_repo_import()
    out = {}
    for key in keys:
        r, w = os.pipe()
        pid = os.fork()
        if pid == 0:
            os.close(r)
            try:
                data = json.dumps(compute_value(key))
            except BaseException as exc:      # noqa
                data = json.dumps({'__error__': repr(exc)})
            with os.fdopen(w, 'w') as f:
                f.write(data)
            os._exit(0)
        os.close(w)
        with os.fdopen(r) as f:
            data = f.read()
        os.waitpid(pid, 0)
        val = json.loads(data)
        if isinstance(val, dict) and '__error__' in val:
            raise RuntimeError('reference value %r failed: %s' % (key, val['__error__']))
        out[json.dumps(key, sort_keys=True)] = val
    print(json.dumps(out))


def token_list_errors():
    from mistletoe import block_token, span_token
    errs = []
    want_b = [getattr(block_token, n) for n in block_token.__all__]
    want_s = [getattr(span_token, n) for n in span_token.__all__]
    if len(block_token._token_types) != len(want_b) or any(a is not b for a, b in zip(block_token._token_types, want_b)):
        errs.append('block token set is %r' % [c.__name__ for c in block_token._token_types])
    if len(span_token._token_types) != len(want_s) or any(a is not b for a, b in zip(span_token._token_types, want_s)):
        errs.append('span token set is %r' % [c.__name__ for c in span_token._token_types])
    return errs


def battery_errors(base, which=None):
    """Compare the probe battery with the fresh-interpreter values (no renderer context may be open)."""
    import html as _html
    from mistletoe import Document
    errs = []
    idxs = range(len(PROBES)) if which is None else which
    for i in idxs:
        p = PROBES[i]
        try:
            got, _ = renderers.render('Html', {}, p)
        except Exception as exc:
            errs.append('probe %d: HtmlRenderer raised %s' % (i, exc_sig(exc)))
            continue
        if got != base['probes'][i]:
            errs.append('probe %d: HtmlRenderer output %r, fresh interpreter %r' % (i, got[:200], base['probes'][i][:200]))
        try:
            d = astdump.dump(Document(p))
        except Exception as exc:
            errs.append('probe %d: bare Document raised %s' % (i, exc_sig(exc)))
            continue
        d = json.loads(json.dumps(d))
        if d != base['bare'][i]:
            errs.append('probe %d: bare parse differs at %s' % (i, astdump.first_difference(d, base['bare'][i])))
    if _html._charref.pattern != base['charref']:
        errs.append('html._charref left patched')
    if _html.unescape('&amp &lt;x &notit; &#35;') != base['unescape']:
        errs.append('html.unescape behaves differently')
    return errs


def run_history(ops):
    """Executes a history; returns (failure or None, info).  Library state is reset first, so the
    history is the whole story."""
    from mistletoe import Document, block_token, span_token
    base = baseline()
    core.reset_library_state()
    open_r = None
    try:
        for step, op in enumerate(ops):
            kind = op['op']
            own_err = None
            try:
                if kind == 'use':
                    name, opts, d = op['r'], op.get('opts') or {}, op['d']
                    got = render_or_refusal(name, opts, PROBES[d])
                    want = base['uses'][use_key(name, opts, d)]
                    if got != want:
                        own_err = '%s%r on probe %d gives %r, fresh interpreter %r' % (name, opts, d, got[:200], want[:200])
                elif kind == 'enter':
                    if open_r is not None:
                        continue
                    open_r = (op['r'], op.get('opts') or {}, renderers.make(op['r'], op.get('opts')).__enter__())
                elif kind == 'render':
                    if open_r is None:
                        continue
                    name, opts, r = open_r
                    got = render_or_refusal(name, opts, PROBES[op['d']], renderer=r)
                    want = base['uses'][use_key(name, opts, op['d'])]
                    if got != want:
                        own_err = '%s%r (open context) on probe %d gives %r, fresh %r' % (name, opts, op['d'], got[:200], want[:200])
                elif kind == 'refused':
                    # the open renderer refuses a document half-way through rendering (documented refusals only)
                    if open_r is None or open_r[0] not in REFUSED:
                        continue
                    if open_r[0] == 'Pygments' and not open_r[1].get('fail_on_unsupported_language'):
                        continue
                    docs = REFUSED[open_r[0]]
                    try:
                        open_r[2].render(Document(docs[op['d'] % len(docs)]))
                        own_err = 'the refusal document was rendered without a refusal'
                    except Exception as exc:
                        if type(exc).__name__ not in ('ClassNotFound', 'RuntimeError'):
                            own_err = 'unexpected %s' % exc_sig(exc)
                elif kind == 'exit':
                    if open_r is None:
                        continue
                    open_r[2].__exit__(None, None, None)
                    open_r = None
                elif kind == 'fault':
                    if open_r is not None:
                        continue
                    T = _fault_class(op['kind'])
                    try:
                        # the context in which the token is added by hand: a renderer with token types of its own, or one without
                        via = VIA[op.get('via', 0) % len(VIA)]
                        with renderers.make(*via) as r:
                            if op['kind'].startswith('span'):
                                # the last span token type is the fallback (RawText): custom tokens go before it
                                span_token.add_token(T, min(op['pos'], len(span_token._token_types) - 1))
                            else:
                                block_token.add_token(T, min(op['pos'], len(block_token._token_types)))
                            r.render(Document(TRIGGERS[op['d'] % len(TRIGGERS)]))
                    except Boom:
                        pass
                elif kind == 'bare':
                    if open_r is not None:
                        continue
                    d = json.loads(json.dumps(astdump.dump(Document(PROBES[op['d']]))))
                    if d != base['bare'][op['d']]:
                        own_err = 'bare parse of probe %d differs at %s' % (op['d'], astdump.first_difference(d, base['bare'][op['d']]))
                elif kind == 'scheme':
                    if open_r is not None:
                        continue
                    from mistletoe.contrib.scheme import Scheme, Program
                    with Scheme() as r:
                        got = repr(r.render(Program(SCHEME_PROGRAM.split('\n'))))
                    if got != base['scheme']:
                        own_err = 'scheme program gives %s, fresh %s' % (got, base['scheme'])
                else:
                    raise KeyError(kind)
            except Boom:
                pass
            except Exception as exc:
                own_err = 'operation raised %s' % exc_sig(exc)
            if own_err:
                return Fail('same-output', 'operation output [%s]' % kind, step=step, ops=ops[:step + 1], error=own_err), step
            if open_r is None:
                errs = token_list_errors()
                if errs:
                    return Fail('default-token-sets', 'after %s' % kind, step=step, ops=ops[:step + 1], errors=errs), step
                errs = battery_errors(base)
                if errs:
                    return Fail('same-output', 'probe battery after %s' % kind, step=step, ops=ops[:step + 1], errors=errs[:4]), step
        return None, len(ops)
    finally:
        if open_r is not None:
            try:
                open_r[2].__exit__(None, None, None)
            except Exception:
                pass
        core.reset_library_state()


_USES = {json.dumps([n, o], sort_keys=True) for n, o in RENDERER_OPS}


def _valid_op(o):
    k = o.get('op')
    try:
        if k in ('use', 'enter'):
            ok = json.dumps([o['r'], o.get('opts') or {}], sort_keys=True) in _USES
            return ok and (k == 'enter' or 0 <= o['d'] < len(PROBES))
        if k in ('render', 'bare'):
            return isinstance(o['d'], int) and 0 <= o['d'] < len(PROBES)
        if k == 'refused':
            return isinstance(o['d'], int) and o['d'] >= 0
        if k == 'fault':
            return o['kind'] in FAULT_KINDS and isinstance(o['pos'], int) and 0 <= o['pos'] <= 12 and isinstance(o['d'], int) and o['d'] >= 0
        return k in ('exit', 'scheme')
    except (KeyError, TypeError):
        return False


def check_history(case):
    ops = case.get('ops')
    if not isinstance(ops, list) or not all(isinstance(o, dict) and 'op' in o for o in ops) or not all(_valid_op(o) for o in ops):
        return Out(skip='malformed history')
    try:
        fail, steps = run_history(ops)
    except (KeyError, IndexError, TypeError) as exc:
        return Out(skip='malformed history: %r' % (exc,))
    kinds = [o['op'] for o in ops]
    rs = {o.get('r') for o in ops if o['op'] in ('use', 'enter')}
    nt = ('fault' in kinds[:-1]) or len(rs) >= 2
    labels = tuple(sorted({'op:' + k for k in kinds})) + ('len:%d' % min(len(ops), 8),)
    return Out(fail, nt=nt, labels=labels)


def full_alphabet():
    ops = []
    for name, opts in RENDERER_OPS:
        ops.append({'op': 'use', 'r': name, 'opts': opts, 'd': (len(ops) * 5) % len(PROBES)})
    for kind in FAULT_KINDS:
        n = 9 if kind.startswith('span') else 11
        for pos in range(0, n):
            ops.append({'op': 'fault', 'kind': kind, 'pos': pos, 'd': pos % len(TRIGGERS), 'via': pos % len(VIA)})
    for d in (0, 3, 4):
        ops.append({'op': 'bare', 'd': d})
    ops.append({'op': 'scheme'})
    return ops


def reduced_alphabet():
    return [
        {'op': 'use', 'r': 'Html', 'opts': {}, 'd': 4},
        {'op': 'use', 'r': 'Markdown', 'opts': {}, 'd': 6},
        {'op': 'use', 'r': 'XWiki20', 'opts': {}, 'd': 11},
        {'op': 'fault', 'kind': 'span-find', 'pos': 5, 'd': 0},
        {'op': 'fault', 'kind': 'block-start', 'pos': 4, 'd': 1},
        {'op': 'fault', 'kind': 'block-read', 'pos': 0, 'd': 3},
        {'op': 'bare', 'd': 3},
        {'op': 'scheme'},
    ]


class Bounded(EnumPart):
    name = 'bounded-histories'
    rule = ('complete enumeration of histories: length 2 over the full alphabet (17 renderer uses, 5 fault kinds at every list position, '
            'bare parses, Scheme) and length 4 (quick) / 5 (thorough) over 8 state-touching operations; the oracle runs after every '
            'step, so every shorter history is covered as a prefix; non-trivial = a fault or a renderer change before the last observation')

    def items(self, tier, k, n):
        full = full_alphabet()
        idx = 0
        for a in full:
            for b in full:
                idx += 1
                if idx % n == k:
                    yield {'ops': [a, b]}
        for name, opts in RENDERER_OPS:
            if name in REFUSED:
                for d in range(2):
                    for d2 in (0, 1, 5, 10, 13):
                        idx += 1
                        if idx % n == k:
                            yield {'ops': [{'op': 'enter', 'r': name, 'opts': opts}, {'op': 'render', 'd': d2}, {'op': 'refused', 'd': d},
                                           {'op': 'render', 'd': d2}, {'op': 'exit'}, {'op': 'use', 'r': name, 'opts': opts, 'd': d2}]}
        red = reduced_alphabet()
        L = 4 if tier == 'quick' else 5
        for tup in itertools.product(range(len(red)), repeat=L):
            idx += 1
            if idx % n == k:
                yield {'ops': [red[i] for i in tup]}

    def check(self, case):
        return check_history(case)


def draw_op(t, in_context):
    if in_context:
        k = t.weighted([(3, 'render'), (2, 'exit'), (1, 'refused')])
        if k == 'refused':
            return {'op': 'refused', 'd': t.below(4)}
        if k == 'render':
            return {'op': 'render', 'd': t.below(len(PROBES))}
        return {'op': 'exit'}
    k = t.weighted([(4, 'use'), (3, 'fault'), (2, 'enter'), (1, 'bare'), (1, 'scheme')])
    if k == 'use':
        name, opts = t.choice(RENDERER_OPS)
        return {'op': 'use', 'r': name, 'opts': opts, 'd': t.below(len(PROBES))}
    if k == 'enter':
        name, opts = t.choice(RENDERER_OPS)
        return {'op': 'enter', 'r': name, 'opts': opts}
    if k == 'fault':
        return {'op': 'fault', 'kind': t.choice(FAULT_KINDS), 'pos': t.below(12), 'd': t.below(len(TRIGGERS)), 'via': t.below(len(VIA))}
    if k == 'bare':
        return {'op': 'bare', 'd': t.below(len(PROBES))}
    return {'op': 'scheme'}


class RandomHistories(HypPart):
    name = 'random-histories'
    budget = {'quick': 400, 'thorough': 20000}
    rule = ('Hypothesis-drawn histories of up to 40 operations over {use R, enter R / render d / exit (well bracketed), fault (kind, '
            'position, trigger), bare parse, Scheme}; oracle after every step')

    def strategy(self, tier):
        return tapes(20, 160)

    def expand(self, drawn):
        t = Tape(drawn)
        ops = []
        in_ctx = False
        while not t.exhausted() and len(ops) < 40:
            op = draw_op(t, in_ctx)
            if op['op'] == 'enter':
                in_ctx = True
            elif op['op'] == 'exit':
                in_ctx = False
            ops.append(op)
        if in_ctx:
            ops.append({'op': 'exit'})
        yield {'ops': ops}

    def check(self, case):
        return check_history(case)


class StatefulMachine(core.Part):
    """The same operations driven by Hypothesis' rule-based state machine (run_state_machine_as_test);
    failures are recorded as plain histories and handed to the common shrinker / replay."""
    name = 'stateful-machine'
    rule = ('hypothesis.stateful.RuleBasedStateMachine: rules = the operations, invariant = the oracle, '
            '50-step histories; each finished machine counts as one evaluation')
    machines = {'quick': 96, 'thorough': 4000}

    def check(self, case):
        return check_history(case)

    def run(self, tier, k, n, seed, acc):
        import hypothesis
        from hypothesis import HealthCheck, Phase, settings, strategies as st
        from hypothesis.stateful import RuleBasedStateMachine, invariant, precondition, rule, run_state_machine_as_test
        part = self
        total = self.machines[tier]
        mine = total // n + (1 if k < total % n else 0)
        if mine <= 0:
            return
        base = baseline()
        import gc
        gc.callbacks[:] = [cb for cb in gc.callbacks if 'gc_cumulative_time' not in getattr(cb, '__qualname__', '')]

        class Machine(RuleBasedStateMachine):
            def __init__(self):
                super().__init__()
                core.reset_library_state()
                self.ops = []
                self.open_r = None
                self.dead = False

            def _do(self, op):
                if self.dead:
                    return
                self.ops.append(op)

            @precondition(lambda self: self.open_r is None and not self.dead)
            @rule(ro=st.sampled_from(RENDERER_OPS), d=st.integers(0, len(PROBES) - 1))
            def use(self, ro, d):
                self._do({'op': 'use', 'r': ro[0], 'opts': ro[1], 'd': d})

            @precondition(lambda self: self.open_r is None and not self.dead)
            @rule(ro=st.sampled_from(RENDERER_OPS))
            def enter(self, ro):
                self._do({'op': 'enter', 'r': ro[0], 'opts': ro[1]})
                self.open_r = ro

            @precondition(lambda self: self.open_r is not None and not self.dead)
            @rule(d=st.integers(0, len(PROBES) - 1))
            def render(self, d):
                self._do({'op': 'render', 'd': d})

            @precondition(lambda self: self.open_r is not None and self.open_r[0] in REFUSED and not self.dead)
            @rule(d=st.integers(0, 3))
            def refused(self, d):
                self._do({'op': 'refused', 'd': d})

            @precondition(lambda self: self.open_r is not None and not self.dead)
            @rule()
            def exit(self):
                self._do({'op': 'exit'})
                self.open_r = None

            @precondition(lambda self: self.open_r is None and not self.dead)
            @rule(kind=st.sampled_from(FAULT_KINDS), pos=st.integers(0, 11), d=st.integers(0, len(TRIGGERS) - 1))
            def fault(self, kind, pos, d):
                self._do({'op': 'fault', 'kind': kind, 'pos': pos, 'd': d})

            @precondition(lambda self: self.open_r is None and not self.dead)
            @rule(d=st.integers(0, len(PROBES) - 1))
            def bare(self, d):
                self._do({'op': 'bare', 'd': d})

            @precondition(lambda self: self.open_r is None and not self.dead)
            @rule()
            def scheme(self):
                self._do({'op': 'scheme'})

            def teardown(self):
                # the whole recorded history is replayed through the plain-data oracle (which checks after every step)
                if self.ops:
                    ops = list(self.ops)
                    if self.open_r is not None:
                        ops.append({'op': 'exit'})
                    case = {'ops': ops}
                    acc.observe(part, case, part.check(case))

        st_settings = settings(max_examples=mine, stateful_step_count=50, database=None, deadline=None,
                               phases=[Phase.generate], report_multiple_bugs=False, suppress_health_check=list(HealthCheck))
        run_state_machine_as_test(hypothesis.seed(seed * 64 + k + 17)(Machine), settings=st_settings)


class C11(Prop):
    id = 'C11'
    rule = Bounded.rule
    assumptions = (
        'every reference value comes from its own pristine process (python -m vf.props.c11 --values: fork before any parse), so a leak cannot contaminate the reference',
        'contexts are well bracketed and not nested (the property says "each used as a context manager")',
        'leaks are observable only through the probe battery (12 documents chosen to touch every piece of parser scratch state) and the token lists',
    )

    def selfcheck(self):
        b = baseline()
        return 'baseline from fresh interpreter: %d probe values, %d renderer uses' % (len(b['probes']), len(b['uses']))

    def parts(self):
        return [Bounded(), RandomHistories(), StatefulMachine()]


PROP = C11()


if __name__ == '__main__':
    if '--values' in sys.argv:
        _values_main(json.loads(sys.argv[sys.argv.index('--values') + 1]))
