"""C17 — LaTeX output keeps its group/environment structure whatever the text says."""
from .. import renderers
from ..core import Fail, HypPart, Out, Prop, exc_sig
from ..gen import pools
from ..gen.tape import Tape, tapes
from ..oracle import latexscan, skeleton
from .c08 import hostile

PAYLOAD = ['\uff05', '\uff5b', '\uff5d', '\uff04', '\uff3c', '\uff03', '\uff06', '\uff3f', '\uff3e', '\ufe6a', '\ufe5b', '\ufe5c', '\ufe68',      # full-width / small forms of the specials: they are ordinary text
           '$', '#', '{', '}', '&', '_', '%', '^', '\\', '~', '\\\\', '\\{', '\\}', '\\$', '\\%', '\\_', '\\&', '\\#', '\\^',
           '&#92;', '&#123;', '&#125;', '&#36;', '&amp;', '&lt;', '\\end{document}', '\\begin{x}', '\\end{lstlisting}',
           '\\verb|x|', '\\textbf{', '$$', '^^M', '%%', '{}', 'a', 'b', 'x', ' ', '/', ':', '"', "'", '(', ')', '[', ']', '`',
           '*', '|', '!', '=', '+', '<', '>', 'é']

SPECIALS = set('$#{}&_%^\\')


def mask_math(doc, broken=None):
    """Math spans are written verbatim by design; they are replaced by a stand-in before rendering.  What is checked about
    them: the verbatim text must itself be a closed math region for LaTeX, i.e. its closing '$' is not escaped by a
    backslash in front of it (else document text has opened math mode that never closes)."""
    used = 0
    stack = [doc]
    while stack:
        t = stack.pop()
        if type(t).__name__ == 'Math':
            src = t.content
            inner = src.strip('$')
            if broken is not None and (len(inner) - len(inner.rstrip('\\'))) % 2 == 1:
                broken.append(src)
            t.content = chr(0xE000 + used % 6400)
            used += 1
        ch = t.children
        if ch:
            stack.extend(ch)
        hdr = vars(t).get('header')
        if hdr is not None:
            stack.append(hdr)
    return used


def known_class(doc_classes, text, fail):
    return None


def check_case(case):
    from mistletoe import Document
    text = case['text']
    try:
        with renderers.make('LaTeX') as r:
            doc = Document(text)
            broken_math = []
            n_math = mask_math(doc, broken_math)
            out = r.render(doc)
            skeleton.neutralise(doc, keep=('Math',))
            out_neutral = r.render(doc)
    except RecursionError:
        return Out(skip='nesting too deep')
    except RuntimeError as exc:
        if 'Unable to find delimiter' in str(exc):
            return Out(skip='documented refusal: no verb delimiter free')
        return Out(skip='raised ' + exc_sig(exc))
    except Exception as exc:
        return Out(skip='raised ' + exc_sig(exc))
    events, problems = latexscan.scan(out)
    if broken_math:
        problems = [('math-region-never-closes', 'verbatim math %r ends in an escaped dollar' % broken_math[0][:40])] + list(problems)
    nt = ('\\verb' in out or 'lstlisting' in out or any(('\\' + c) in out for c in '$#{}&_%^') or 'textbackslash' in out)
    labels = ()
    if SPECIALS & set(text):
        labels += ('text-has-specials',)
    if n_math:
        labels += ('has-math',)
    if 'lstlisting' in out:
        labels += ('has-code-block',)
    if '\\href' in out or '\\url' in out:
        labels += ('has-url',)
    if '\\includegraphics' in out:
        labels += ('has-image',)
    if problems:
        code, detail = problems[0]
        return Out(Fail('structure', code.split(':')[0].split("-before-")[0], text=text, detail=detail, output=out, problems=[list(p) for p in problems[:6]]),
                   nt=nt, labels=labels)
    events2, problems2 = latexscan.scan(out_neutral)
    if problems2:
        return Out(Fail('structure', 'neutralised:' + problems2[0][0], text=text, output=out_neutral), nt=nt, labels=labels)
    if events != events2:
        i = next((k for k, (a, b) in enumerate(zip(events, events2)) if a != b), min(len(events), len(events2)))
        return Out(Fail('no-injection', 'skeleton differs', text=text, output=out, neutral_output=out_neutral,
                        first_difference=[list(events[i]) if i < len(events) else None,
                                          list(events2[i]) if i < len(events2) else None]), nt=nt, labels=labels)
    return Out(nt=nt, labels=labels)


class Random(HypPart):
    name = 'random'
    budget = {'quick': 8000, 'thorough': 400000}
    rule = ('texts from pools G0-G4 and hostile snippets whose text, URLs, image sources, titles and info strings are rich in '
            '$ # { } & _ % ^ \\ ~ and in LaTeX control sequences; non-trivial = output contains an escape form or a verbatim '
            'region; distinct = distinct text')
    required_labels = {'text-has-specials': 0.3, 'has-code-block': 0.03, 'has-url': 0.05}

    def strategy(self, tier):
        return tapes(60, 700)

    def expand(self, drawn):
        t = Tape(drawn)
        while not t.exhausted():
            if t.chance(140):
                parts = [hostile(t, PAYLOAD) for _ in range(1 + t.below(3))]
                text = t.choice(['\n\n', '\n', ' ']).join(parts)
                if t.chance(50):
                    text = t.choice(['> ', '- ', '1. ']) + text
            else:
                _, text = pools.any_text(t, 300)
            yield {'text': text}

    def check(self, case):
        return check_case(case)

    def known_class(self, case, fail):
        return classify(case, fail)


def classify(case, fail):
    """Narrow input classes of the recorded findings (see known_findings.json)."""
    from mistletoe import Document
    sig = fail.sig
    text = case['text']
    try:
        with renderers.make('LaTeX') as r:
            doc = Document(text)
    except Exception:
        return None
    img_special = lang_special = code_end = False
    stack = [doc]
    while stack:
        t = stack.pop()
        name = type(t).__name__
        if name == 'Image' and (set(t.src) & set('{}%#$^\\&_~\n ')):
            img_special = True
        if name in ('CodeFence',) and any(not (c.isalnum() or c in '+-.') for c in t.language):
            # copied raw into [language=...]: LaTeX specials, brackets, and (through character references) line ends or spaces
            lang_special = True
        if name in ('CodeFence', 'BlockCode') and '\\end{lstlisting}' in t.children[0].content:
            code_end = True
        ch = t.children
        if ch:
            stack.extend(ch)
        hdr = vars(t).get('header')
        if hdr is not None:
            stack.append(hdr)
    # a class only explains the failure if the output is clean once the offending field is defused
    if img_special or lang_special or code_end:
        try:
            with renderers.make('LaTeX') as r:
                doc = Document(text)
                mask_math(doc)
                stack = [doc]
                while stack:
                    t = stack.pop()
                    name = type(t).__name__
                    if name == 'Image':
                        t.src = 'x'
                    if name == 'CodeFence':
                        t.language = 'x' if t.language else ''
                    if name in ('CodeFence', 'BlockCode'):
                        t.children[0].content = t.children[0].content.replace('\\end{lstlisting}', 'xxxxxxxxxxxxxxxx')
                    ch = t.children
                    if ch:
                        stack.extend(ch)
                    hdr = vars(t).get('header')
                    if hdr is not None:
                        stack.append(hdr)
                out = r.render(doc)
            if latexscan.scan(out)[1]:
                return None
        except Exception:
            return None
        if img_special:
            return 'latex-image-source-raw'
        if lang_special:
            return 'latex-code-language-raw'
        return 'latex-code-contains-end-lstlisting'
    return None


class C17(Prop):
    id = 'C17'
    rule = Random.rule
    assumptions = (
        'math spans are replaced by placeholders in the parsed tree before rendering (passed through by design)',
        'arguments of \\url / \\href (first) are checked for group/comment/math neutrality only: bare _ & ~ are accepted there because '
        'hyperref reads these arguments verbatim',
        "the renderer's own ' & ' column separator inside tabular and its own { } groups are distinguished from text by position and by "
        'skeleton invariance under text neutralisation',
    )

    def selfcheck(self):
        """The scanner must reject known-bad outputs and accept a known-good one."""
        pre, post = '\\documentclass{article}\n\\begin{document}\n', '\\end{document}\n'
        bad = ['a\\b', 'a { b', 'a } b', 'a $x$ b', '50% off', 'a_b', 'x^2', 'a & b', '\\end{document}', '\\begin{itemize}\n\\item a\n',
               '\\textbf{a', '\\href{a{b}{x}', '\\begin{lstlisting}[language={]\nx\n\\end{lstlisting}\n', '\\newpage', '#1']
        for body in bad:
            if not latexscan.scan(pre + body + '\n' + post)[1]:
                raise RuntimeError('LaTeX scanner accepts %r' % body)
        good = (pre + '\n\\section{T \\& \\$}\n\na \\textit{b} \\verb|c{}$|  \\href{http://x/\\%20y\\#f}{l} 50\\% \\^{} \\textbackslash{}\\{\n'
                '\\begin{itemize}\n\\item x\n\\end{itemize}\n\\begin{tabular}{l c}\na & b \\\\\n\\hline\n\\end{tabular}\n'
                '\n\\begin{lstlisting}[language=py]\nx = {1: "$"} % c\n\\end{lstlisting}\n' + post)
        probs = latexscan.scan(good)[1]
        if probs:
            raise RuntimeError('LaTeX scanner rejects a well-formed sample: %r' % (probs,))
        return 'scanner self-test: %d bad outputs rejected, 1 good accepted' % len(bad)

    def parts(self):
        return [Random()]


PROP = C17()
