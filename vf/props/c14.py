"""C14 — ordinary prose passes through unchanged."""
import re

from .. import renderers
from ..core import Fail, HypPart, Out, Prop, exc_sig
from ..gen import pools
from ..gen.tape import Tape, tapes
from ..oracle import emphasis

VOCAB = [
    # plain words
    'word', 'Hello', 'the', 'of', 'and', 'x', 'I', 'naïve', 'Ünï', '中文', 'v2', '42', '007', '3.14', '1.5', '10,000',
    # underscores and asterisks in inert positions
    'snake_case', 'a_b_c', '__init__', '_', '__', 'x_', '_x', 'a_', '2*3', 'a*b*c', '*', '**', '* *', '5*', '*5',
    # block-marker look-alikes
    '-', '+', '#', '##', '#tag', '#1', '>', '>>', '=', '==', '===', '--', '---', '...', '....', '-x', '+1', '-1', 'x-', '1.', '2)',
    '10.', '1.a', '1)x', '(1)', '(a)', 'a)', 'a.', '.', ')', '(', '.)', ':', ';', ',', '!', '?', '!?', '¡', '"', "'", '“q”',
    # pipes, tildes, carets, dollars, percents, ats
    '|', '||', 'a|b', '|x|', '~', '~x', 'x~', '~~', '^', '^2', 'x^y', '$', '$5', '$x$', '100%', '%', '@', '@me', 'a@b', 'me@x.org',
    # brackets
    '[', ']', '[x', 'x]', '[]', '[x]', '[ ]', '][', '{', '}', '{x}', '{{x}}',
    # ampersands
    '&', 'AT&T', 'a&b;', '&&', '&c', 'R&D;', '&;', '&#;', '&#x;', '&amp', '&#35', 'Q&A', '&ampere;', '&ltx;',
    # angle brackets
    '<3', 'a<b', '<', '<<', '<-', '->', '=>', '<=', 'a>b', '< a', '<1>', '<>',
    # backslashes and backticks
    'c:\\dir', '\\n', 'a\\b', '\\1', '`', '``', 'a`b', '`x',
    # runs that mix the two underline characters, or an underline character with others: never a setext underline or a break
    # a Unicode space after hashes: no heading
    '#\u00a0tag', '##\u2003x', '#\u3000y',
    # digits of other scripts with a dot / parenthesis: no list marker
    '\u0661.', '\uff11.', '\u0967)', '\u0661\u0662.',
    # delimiter-row look-alikes: no table when the line above has no pipe (one cell against two)
    '-|-', '--|--', ':-|-:', '-|-|-',
    '=-=', '-=-', '=-', '-=', '==-', '--=', '=.=', '-_-', '*-*', '_*_',
    # misc
    "it's", '"q"', 'e.g.', 'i.e.', 'U.S.A.', 'http://x.y/z', 'www.x.org', 'a/b', 'a+b=c', '1+1=2', 'x=1', '--flag', '-o', 'C++', 'C#',
    'f(x)', 'f(x,y)', '(see', 'below)', 'TODO:', 'NB:', 'a:b', '9:30', '#!', '!important', '!x', '![', '!]',
]

_ASCII_PUNCT = set('!"#$%&\'()*+,-./:;<=>?@[\\]^_`{|}~')

_ATX = re.compile(r'^#{1,6}(?:[ \t]|$)')
_HR = re.compile(r'^([-_*])(?:[ \t]*\1){2,}[ \t]*$')
_SETEXT = re.compile(r'^(?:=+|-+)[ \t]*$')
_DELIM_ROW = re.compile(r'^\s*\|?\s*:?-+:?\s*(?:\|\s*:?-+:?\s*)*\|?\s*$')
_LIST = re.compile(r'^(?:[-+*]|[0-9]{1,9}[.)])(?:[ \t]|$)')
_FENCE = re.compile(r'^(?:`{3,}|~{3,})')
_CHARREF = re.compile(r'&(?:#[0-9]{1,7}|#[xX][0-9a-fA-F]{1,6}|[A-Za-z][A-Za-z0-9]{1,31});')
_BACKTICKS = re.compile(r'`+')

_ENTITY_NAMES = None


def _is_entity(name):
    global _ENTITY_NAMES
    if _ENTITY_NAMES is None:
        import html.entities
        _ENTITY_NAMES = {k[:-1] for k in html.entities.html5 if k.endswith(';')}
    return name in _ENTITY_NAMES


def split_indent(line):
    """-> (columns of leading spaces / tabs, rest of the line)"""
    cols = i = 0
    for ch in line:
        if ch == ' ':
            cols += 1
        elif ch == '\t':
            cols += 4 - cols % 4
        else:
            break
        i += 1
    return cols, line[i:]


def bodies(lines):
    return [split_indent(line)[1] for line in lines]


_DEF_HEAD = re.compile(r'^\[([^\[\]\\]*)\]:(.*)$')


def surely_no_definition(line):
    """True only for first lines '[label]:...' that certainly are no link reference definition (spec 4.7): the label is
    blank, or what follows the colon begins with a bare word that cannot be a destination because its parentheses do not
    balance, or a plain destination is followed by a word that cannot begin a title.  Everything else: False."""
    m = _DEF_HEAD.match(line)
    if not m:
        return False
    label, rest = m.group(1), m.group(2)
    if label.strip() == '':
        return True
    words = rest.split()
    if not words or any(c in w for w in words[:2] for c in '<>\\[]'):
        return False
    depth, low = 0, 0
    for c in words[0]:
        depth += (c == '(') - (c == ')')
        low = min(low, depth)
    if depth != 0 or low < 0:
        return True
    return len(words) >= 2 and '(' not in words[0] and words[1][0] not in '"\'('


def not_inert_reason(lines):
    """None if CommonMark gives no part of this paragraph a meaning (conservative: may reject inert paragraphs).
    Lines may be indented with spaces / tabs: up to 3 columns anywhere, and 4 or more on a continuation line,
    where no block can start (indented code cannot interrupt a paragraph)."""
    for i, raw in enumerate(lines):
        cols, line = split_indent(raw)
        if line != line.strip() or line == '':
            return 'whitespace at line edge'
        if i == 0 and cols >= 4:
            return 'indented code'
        if i > 0 and _DELIM_ROW.match(line):
            # a header line without any pipe has one cell: under a delimiter row of two or more cells it is no table header
            # (GFM: the cell counts must agree); every other combination is left out (conservative)
            if '|' in lines[i - 1] or len(re.findall(r':?-+:?', line)) < 2:
                return 'table delimiter row'
        if line.endswith('\\'):
            return 'backslash hard break'
        if i > 0 and cols >= 4:
            continue        # nothing can start here
        if _ATX.match(line):
            return 'ATX heading opener'
        if _HR.match(line):
            return 'thematic break'
        if i > 0 and _SETEXT.match(line):
            return 'setext underline'
        m = _LIST.match(line)
        if m:
            # on a continuation line a list item interrupts the paragraph only if it is not empty and, when ordered, numbered 1
            marker = m.group(0).strip()
            empty = line[len(marker):].strip() == ''
            if i == 0 or not (empty or (marker[0].isdigit() and int(marker[:-1]) != 1)):
                return 'list marker'
        if line.startswith('>'):
            return 'block quote marker'
        if _FENCE.match(line):
            return 'code fence'
        if line.startswith('<') and len(line) > 1 and (line[1].isalpha() or line[1] in '/!?'):
            return 'possible HTML block'
        if i == 0 and line.startswith('[') and ']:' in line and not surely_no_definition(line):
            return 'possible link reference definition'
        # (on a continuation line '[x]: y' is text: a definition cannot interrupt a paragraph)
    lines = bodies(lines)
    text = '\n'.join(lines)
    if '<em>' in emphasis.model(text) or '<strong>' in emphasis.model(text):
        return 'emphasis'
    runs = [len(m) for m in _BACKTICKS.findall(text)]
    if len(runs) != len(set(runs)):
        return 'code span'
    if '](' in text or '][' in text:
        return 'link syntax'
    if text.startswith('[') and ']:' in text and not surely_no_definition(lines[0]):
        return 'possible link reference definition'      # (a label may run over several lines)
    if re.search(r"<[A-Za-z0-9.!#$%&'*+/=?^_`{|}~-]+@[A-Za-z0-9]", text):
        return 'possible e-mail autolink'
    for m in re.finditer(r'<', text):
        nxt = text[m.end():m.end() + 1]
        if nxt and (nxt.isalpha() or nxt in '/!?') and '>' in text[m.end():]:
            return 'possible autolink or raw HTML'
    for m in _CHARREF.finditer(text):
        body = m.group(0)[1:-1]
        if body.startswith('#') or _is_entity(body):
            return 'character reference'
    for m in re.finditer(r'\\(.)', text, re.S):
        if m.group(1) in _ASCII_PUNCT or m.group(1) == '\n':
            return 'backslash escape'
    if text.count('~~') >= 2:
        return 'strikethrough'
    if '  ' in text:
        return 'double space'
    return None


def expected_html(lines):
    text = '\n'.join(bodies(lines))
    return '<p>%s</p>\n' % text.replace('&', '&amp;').replace('<', '&lt;').replace('>', '&gt;')


INDENTS = ['', '', '', '', '', '', ' ', '  ', '   ', '    ', '     ', '\t', '  \t', ' \t ', '        ', '\t\t']


def indent(t, first):
    return t.choice(INDENTS[:9] if first else INDENTS)


def label_colon_line(t):
    """a first line that looks like the beginning of a link reference definition and is none: 'Bob: :(' written with a
    bracketed name, a numbered remark '[1]: (see', a blank label"""
    label = t.choice(['[Bob]:', '[1]:', '[x y]:', '[note]:', '[ ]:', '[]:', '[\u4e2d]:'])
    sep = t.choice([' ', ' ', '', '  '])
    if label in ('[ ]:', '[]:'):
        return label + ' ' + ' '.join(t.choice(VOCAB) for _ in range(1 + t.below(3)))
    if t.chance(150):
        return label + sep + t.choice([':(', '(see', 'f(x', '((a)', ':)', 'x)', '(', ')', 'a(b(c)', '(a))', ':-(', 'f(x,y'])
    return label + sep + t.choice(['word', 'see', 'x', 'a/b', 'e.g.', '42']) + ' ' + ' '.join(
        t.choice(['word', 'below', 'x', 'and', '1.5', 'a.', '-', '=', '#']) for _ in range(1 + t.below(3)))


class Prose(HypPart):
    name = 'prose'
    budget = {'quick': 9000, 'thorough': 500000}
    required_labels = {'continuation-indented>=4': 0.03, 'indented<4': 0.05, 'label-colon-first-line': 0.005}
    rule = ('paragraphs of 1-4 lines (each optionally indented by spaces / tabs) of 1-8 tokens (single spaces) from a vocabulary of ~%d tricky-but-inert tokens, kept only if an '
            'independent spec-derived predicate finds no live construct; oracle: output == <p>escaped text</p> exactly; '
            'non-trivial = >= 3 distinct punctuation-bearing tokens; distinct = distinct paragraph' % len(VOCAB))

    def strategy(self, tier):
        return tapes(40, 500)

    def expand(self, drawn):
        t = Tape(drawn)
        while not t.exhausted():
            lines = []
            for _ in range(t.weighted([(3, 1), (3, 2), (2, 3), (1, 4)])):
                lines.append(indent(t, not lines) + ' '.join(t.choice(VOCAB) for _ in range(1 + t.below(8))))
            if t.chance(16):
                lines[0] = indent(t, True) + label_colon_line(t)
            yield {'lines': lines}

    def check(self, case):
        lines = case['lines']
        if not isinstance(lines, list) or not lines or not all(isinstance(x, str) and '\n' not in x for x in lines):
            return Out(skip='malformed case')
        why = not_inert_reason(lines)
        if why:
            return Out(skip='not inert: ' + why)
        toks = {w for line in bodies(lines) for w in line.split(' ') if any(not c.isalnum() for c in w)}
        nt = len(toks) >= 3
        labels = ('lines:%d' % len(lines),)
        if any(split_indent(x)[0] >= 4 for x in lines[1:]):
            labels += ('continuation-indented>=4',)
        if any(0 < split_indent(x)[0] < 4 for x in lines):
            labels += ('indented<4',)
        if _DEF_HEAD.match(split_indent(lines[0])[1]):
            labels += ('label-colon-first-line',)
        text = '\n'.join(lines)
        try:
            got, _ = renderers.render('Html', {}, text)
        except Exception as exc:
            return Out(Fail('passes-through', 'raised ' + exc_sig(exc), lines=lines, error=repr(exc)), nt=nt, labels=labels)
        want = expected_html(lines)
        if got == want:
            # the same paragraph supplied as a list of lines without terminators (how the lines of a case are held here)
            import mistletoe
            try:
                got = mistletoe.markdown(list(lines))
            except Exception as exc:
                return Out(Fail('passes-through', 'raised (list of lines) ' + exc_sig(exc), lines=lines, error=repr(exc)), nt=nt, labels=labels)
        if got != want:
            kind = 'block structure' if not (got.startswith('<p>') and got.count('<p>') == 1 and got.endswith('</p>\n')) else 'inline'
            return Out(Fail('passes-through', kind, lines=lines, expected=want, actual=got), nt=nt, labels=labels)
        return Out(nt=nt, labels=labels)

    def shrink_ok(self, case):
        return isinstance(case.get('lines'), list) and len(case['lines']) >= 1


LETTERS = ['a', 'b', 'x', 'Z', 'Q', 'e', 'i', 'o', 'n', 't', '\u00e9', '\u00fc', '\u00df', '\u03c3', '\u0416', '\u4e2d', '\u3042', '\u05d0', '\u0639']
DIGITS = '0123456789' + '\u0661\u0662\uff11\u0967'      # incl. digits of other scripts: letters to CommonMark, never part of a list marker
PUNCT = list('_*-+#>=|~^$%@[]{}&<.():;,!?\'"/\\`')
UPUNCT = ['\u2014', '\u2026', '\u00ab', '\u00bb', '\u00bf', '\u20ac', '\u201c', '\u201d', '\u2019', '\u00a7', '\u00b0', '\u2192', '\u00d7']


def compose_token(t):
    """1-5 atoms: letter runs, digit runs, single ASCII punctuation characters, short punctuation pairs, Unicode punctuation"""
    out = []
    for _ in range(1 + t.below(5)):
        k = t.weighted([(5, 'w'), (4, 'p'), (2, 'd'), (1, 'pp'), (1, 'u')])
        if k == 'w':
            out.append(''.join(t.choice(LETTERS) for _ in range(1 + t.below(4))))
        elif k == 'd':
            out.append(''.join(t.choice(DIGITS) for _ in range(1 + t.below(3))))
        elif k == 'p':
            out.append(t.choice(PUNCT))
        elif k == 'pp':
            out.append(t.choice(PUNCT) + t.choice(PUNCT))
        else:
            out.append(t.choice(UPUNCT))
    return ''.join(out)


class Composed(Prose):
    name = 'composed'
    budget = {'quick': 12000, 'thorough': 600000}
    rule = ('as "prose", but every token is composed freely from 1-5 atoms (letter runs in seven scripts, digit runs, any single ASCII '
            'punctuation character or pair, Unicode punctuation), so that punctuation meets letters, digits and other punctuation '
            'in every position; mixed with vocabulary tokens; same predicate, same oracle')

    def expand(self, drawn):
        t = Tape(drawn)
        while not t.exhausted():
            lines = []
            for _ in range(t.weighted([(3, 1), (3, 2), (2, 3), (1, 4)])):
                lines.append(indent(t, not lines) + ' '.join(
                    t.choice(VOCAB) if t.chance(64) else (pools.numeric_ref(t) + t.choice(['', 'x', '.'])) if t.chance(24) else compose_token(t)
                    for _ in range(1 + t.below(6))))
            if t.chance(12):
                lines[0] = indent(t, True) + label_colon_line(t)
            yield {'lines': lines}


class C14(Prop):
    id = 'C14'
    rule = Prose.rule
    assumptions = (
        'the inertness predicate is conservative: paragraphs it cannot prove inert are discarded and counted (skipped_outside_domain)',
        'emphasis inertness is decided by the independent model vf/oracle/emphasis.py',
    )

    def selfcheck(self):
        """The inertness predicate must reject live constructs and accept plain tricky prose."""
        live = [['a', '1. x'], ['a', '01) x'], ['a', '- x'], ['10. x'], ['    code'], ['a', '   - x'], ['a', ' ==='], ['a|b', '     -|-'], ['  > q'], ['# h'], ['a', '==='], ['- x'], ['1. x'], ['> q'], ['*a*'], ['a `b` c'], ['[a](b)'], ['a &amp; b'], ['a \\* b'],
                ['<http://x.y>'], ['~~a~~ ~~'], ['***'], ['a', '|-|'], ['```'], ['a\\']]
        for lines in live:
            if not_inert_reason(lines) is None:
                raise RuntimeError('inertness predicate accepts %r' % (lines,))
        inert = [['foo', 'bar', '-|-', 'baz|x'], ['a', '10. x'], ['a', '2) x', '100. y'], ['a', '1.'], ['a', '+'], ['a', '    > b'], ['a', '\t- b', '     # c'], [' a', '  b #'], ['snake_case 2*3 AT&T #tag'], ['a * b - c + d', '= e | f ~ g'], ['1.5 (a) 2)x', 'it\'s "q" 100%']]
        for lines in inert:
            if not_inert_reason(lines) is not None:
                raise RuntimeError('inertness predicate rejects %r: %s' % (lines, not_inert_reason(lines)))
        return 'predicate self-test: %d live rejected, %d inert accepted' % (len(live), len(inert))

    def parts(self):
        return [Prose(), Composed()]


PROP = C14()
