"""C04 — quoting or list-indenting any document wraps its parse unchanged."""
import re

from ..core import Fail, HypPart, Out, Prop, exc_sig
from ..gen import pools
from ..gen.tape import Tape, tapes
from .c05 import parse_dump, strip_lines

_HR = re.compile(r'^ {0,3}([-_*])[ \t]*(?:\1[ \t]*){2,}$')


def lines_of(text):
    ls = text.split('\n')
    if text.endswith('\n'):
        ls.pop()
    return ls


_STRUCTURAL_TAB = re.compile(r'(?<![^\W\d_])(?<![^\W\d_]>)\t')      # a tab that follows neither a letter nor a letter and '>'


def in_domain(text):
    # a tab inside the indentation or after a marker is expanded relative to its column, which the embedding shifts
    # (the statement's 'W spaces before every other line' does not preserve such lines); a tab that directly follows
    # a letter (or a letter and '>') is ordinary content and must survive
    if text == '' or _STRUCTURAL_TAB.search(text):
        return 'structural tab or empty'
    ls = lines_of(text)
    if not ls or ls[-1].strip() == '':
        return 'ends in a blank line'
    return None


def embed_quote(text, style):
    """style: list of (indent 0-3, with_space) per line, cycled"""
    out = []
    for i, line in enumerate(lines_of(text)):
        indent, space = style[i % len(style)]
        bare_ok = not line.startswith(' ')
        marker = '>' if (not space and bare_ok) else '> '
        out.append(' ' * indent + marker + line)
    return '\n'.join(out) + '\n'


def embed_list(text, marker, pad, indent_blank):
    w = len(marker) + pad
    out = []
    for i, line in enumerate(lines_of(text)):
        if i == 0:
            out.append(marker + ' ' * pad + line)
        elif line == '':
            out.append(' ' * w if indent_blank else '')
        else:
            out.append(' ' * w + line)
    return '\n'.join(out) + '\n'


def check_quote(case):
    text, tokens = case['text'], case.get('tokens', 'Html')
    why = in_domain(text)
    if why:
        return Out(skip=why)
    style = [(int(a) % 4, bool(b)) for a, b in case.get('style') or [(0, True)]]
    try:
        plain = parse_dump(text, tokens, with_lines=False)
    except RecursionError:
        return Out(skip='nesting too deep')
    except Exception as exc:
        return Out(skip='raised ' + exc_sig(exc))
    emb = embed_quote(text, style)
    kinds = [k[0] for k in plain[2]]
    nt = len(kinds) >= 2 or bool(set(kinds) & {'Quote', 'List', 'BlockCode', 'CodeFence'})
    labels = ('law:quote', 'tokens:' + tokens) + tuple('kind:' + k for k in sorted(set(kinds)))
    try:
        got = parse_dump(emb, tokens, with_lines=False)
    except Exception as exc:
        return Out(Fail('quote-wraps', 'raised ' + exc_sig(exc), text=text, embedded=emb, tokens=tokens), nt=nt, labels=labels)
    want_children = [['Quote', {}, plain[2]]]
    if '\t' in text:
        labels += ('content-tab',)
    if got[2] != want_children:
        from ..oracle import astdump
        diff = astdump.first_difference(['Document', {}, got[2]], ['Document', {}, want_children])
        return Out(Fail('quote-wraps', 'tree differs', text=text, embedded=emb, tokens=tokens, difference=diff), nt=nt, labels=labels)
    if got[1].get('footnotes') != plain[1].get('footnotes'):
        return Out(Fail('definitions-unchanged', 'quote', text=text, embedded=emb, tokens=tokens,
                        plain=plain[1].get('footnotes'), embedded_defs=got[1].get('footnotes')), nt=nt, labels=labels)
    return Out(nt=nt, labels=labels)


def check_list(case):
    text, tokens = case['text'], case.get('tokens', 'Html')
    why = in_domain(text)
    if why:
        return Out(skip=why)
    marker, pad, indent_blank = case['marker'], case['pad'], case.get('indent_blank', False)
    if not re.fullmatch(r'[-+*]|\d{1,9}[.)]', marker) or not 1 <= pad <= 4:
        return Out(skip='malformed case')
    ls = lines_of(text)
    if ls[0][:1] in ('', ' '):
        return Out(skip='does not start with a non-space character')
    if any(l != '' and l.strip() == '' for l in ls):
        return Out(skip='has a whitespace-only line with spaces')
    emb = embed_list(text, marker, pad, indent_blank)
    # the marker / thematic-break coincidences the specification resolves the other way
    if _HR.match(emb.split('\n')[0]):
        return Out(skip='first line is a thematic break')
    try:
        plain = parse_dump(text, tokens, with_lines=False)
    except RecursionError:
        return Out(skip='nesting too deep')
    except Exception as exc:
        return Out(skip='raised ' + exc_sig(exc))
    kinds = [k[0] for k in plain[2]]
    nt = len(kinds) >= 2 or bool(set(kinds) & {'Quote', 'List', 'BlockCode', 'CodeFence'})
    labels = ('law:list', 'marker:' + ('ordered' if marker[0].isdigit() else marker), 'pad:%d' % pad, 'tokens:' + tokens)
    try:
        got = parse_dump(emb, tokens, with_lines=False)
    except Exception as exc:
        return Out(Fail('list-wraps', 'raised ' + exc_sig(exc), text=text, embedded=emb, tokens=tokens), nt=nt, labels=labels)
    ok = (len(got[2]) == 1 and got[2][0][0] == 'List' and got[2][0][2] is not None and len(got[2][0][2]) == 1
          and got[2][0][2][0][0] == 'ListItem')
    from ..oracle import astdump
    if not ok:
        return Out(Fail('list-wraps', 'not a single one-item list', text=text, embedded=emb, tokens=tokens,
                        top=[k[0] for k in got[2]]), nt=nt, labels=labels)
    lst = got[2][0]
    item = lst[2][0]
    if item[2] != plain[2]:
        diff = astdump.first_difference(['ListItem', {}, item[2]], ['ListItem', {}, plain[2]])
        return Out(Fail('list-wraps', 'item content differs', text=text, embedded=emb, tokens=tokens, difference=diff), nt=nt, labels=labels)
    want_start = int(marker[:-1]) if marker[0].isdigit() else None
    w = len(marker) + pad
    attr_errs = []
    if lst[1].get('start') != want_start:
        attr_errs.append('start %r, marker %r' % (lst[1].get('start'), marker))
    if item[1].get('leader') != marker:
        attr_errs.append('leader %r, marker %r' % (item[1].get('leader'), marker))
    if item[1].get('prepend') != w:
        attr_errs.append('prepend %r, content offset %d' % (item[1].get('prepend'), w))
    if item[1].get('indentation') != 0:
        attr_errs.append('indentation %r' % (item[1].get('indentation'),))
    if attr_errs:
        return Out(Fail('list-wraps', 'list attributes', text=text, embedded=emb, tokens=tokens, errors=attr_errs), nt=nt, labels=labels)
    if got[1].get('footnotes') != plain[1].get('footnotes'):
        return Out(Fail('definitions-unchanged', 'list', text=text, embedded=emb, tokens=tokens,
                        plain=plain[1].get('footnotes'), embedded_defs=got[1].get('footnotes')), nt=nt, labels=labels)
    return Out(nt=nt, labels=labels)


def draw_text(t):
    if t.chance(6):
        # containers nested close to the documented limit of 100 levels (the embedding adds one)
        k = 90 + t.below(10)
        inner = t.choice(['- item', 'text', '# h', '1. x', '> q', '- a\n  b', '```\ncode'])
        if t.chance(128):
            return ''.join('> ' for _ in range(k)) + inner.split('\n')[0]
        lines, col = [], 0
        for i in range(k):
            m = t.choice(['-', '1.', '*'])
            lines.append(' ' * col + m + ' x')
            col += len(m) + 1
        return '\n'.join(lines + [' ' * col + inner.split('\n')[0]])
    _, text = pools.any_text(t, 200)
    text = _STRUCTURAL_TAB.sub(' ', text).rstrip('\n')      # tabs that directly follow a letter stay
    ls = text.split('\n')
    while ls and ls[-1].strip() == '':
        ls.pop()
    return '\n'.join(ls) + ('\n' if t.chance(200) else '')


class QuoteLaw(HypPart):
    name = 'quote-law'
    budget = {'quick': 7000, 'thorough': 400000}
    rule = ('texts from pools G0-G4 not ending in a blank line, whose only tabs directly follow a letter (content, not indentation); every line prefixed with "> " or ">" (bare only where the line '
            'does not start with a space) after 0-3 spaces; dump(Document(embedded)) without line numbers must equal Document[Quote[children '
            'of dump(Document(text))]] with equal definitions; non-trivial = >= 2 blocks or a container or a code block')

    def strategy(self, tier):
        return tapes(60, 600)

    def expand(self, drawn):
        t = Tape(drawn)
        while not t.exhausted():
            text = draw_text(t)
            style = [(t.weighted([(5, 0), (1, 1), (1, 2), (1, 3)]), not t.chance(70)) for _ in range(1 + t.below(3))]
            yield {'text': text, 'style': [list(s) for s in style], 'tokens': t.choice(['Html', 'bare', 'Html'])}

    def check(self, case):
        return check_quote(case)

    def known_class(self, case, fail):
        return None


MARKERS = ['-', '+', '*', '1.', '1)', '0.', '7)', '12.', '123456789.', '007)', '9.']


class ListLaw(HypPart):
    name = 'list-law'
    budget = {'quick': 7000, 'thorough': 400000}
    rule = ('the same texts, starting with a non-space character and without whitespace-only lines that contain spaces: list marker '
            '(-, +, *, N., N) with N up to 9 digits) with 1-4 spaces of padding before the first line and W spaces before every other '
            'non-blank line (blank lines left empty or W-indented); must parse to one single-item list whose item content equals the plain '
            'parse, with leader, content offset and start as written; marker/thematic-break coincidences excluded')

    def strategy(self, tier):
        return tapes(60, 600)

    def expand(self, drawn):
        t = Tape(drawn)
        while not t.exhausted():
            text = draw_text(t)
            if text[:1] == ' ':
                text = text.lstrip(' ')
            yield {'text': text, 'marker': t.choice(MARKERS), 'pad': 1 + t.below(4), 'indent_blank': t.chance(100),
                   'tokens': t.choice(['Html', 'bare', 'Html'])}

    def check(self, case):
        return check_list(case)


class C04(Prop):
    id = 'C04'
    rule = QuoteLaw.rule
    assumptions = (
        'line numbers are set aside (C13 decides them); every other scalar attribute of every token is compared',
        'for the list law, texts with a whitespace-only line that contains spaces are skipped (the property leaves such lines untouched and '
        'the specification would then strip part of them)',
    )

    def parts(self):
        return [QuoteLaw(), ListLaw()]


PROP = C04()
