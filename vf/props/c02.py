"""C02 — all 652 CommonMark 0.30 examples render as specified (complete enumeration)."""
import html

from ..core import EnumPart, Fail, Out, Prop, exc_sig
from ..gen import corpus
from ..oracle.htmlnorm import normalize


def render(md, form='str'):
    from mistletoe import Document, HtmlRenderer
    if form == 'lines':
        md = md.splitlines(keepends=True)
    with HtmlRenderer(html_escape_double_quotes=True) as r:
        return r.render(Document(md))


class Spec(EnumPart):
    name = 'spec'
    rule = ('every example of the vendored spec 0.30 corpus; non-trivial = expected HTML is not just '
            '<p>escaped input</p>; distinct = example number')
    forms = ('str',)

    def items(self, tier, k, n):
        ex = corpus.spec_examples()
        for i in range(k, len(ex), n):
            for form in self.forms:
                yield {'example': ex[i]['example'], 'form': form}

    def check(self, case):
        e = corpus.spec_examples()[case['example'] - 1]
        assert e['example'] == case['example']
        md, exp = e['markdown'], e['html']
        trivial = exp == '<p>%s</p>\n' % html.escape(md.strip('\n'), quote=True)
        labels = ('section:' + e['section'],)
        try:
            got = render(md, case['form'])
        except Exception as exc:
            return Out(Fail('spec-example', 'raised ' + exc_sig(exc), example=e['example'], markdown=md,
                            error=repr(exc)), nt=not trivial, labels=labels)
        if normalize(got) != normalize(exp):
            return Out(Fail('spec-example', 'example %d' % e['example'], example=e['example'], section=e['section'],
                            markdown=md, expected=exp, actual=got), nt=not trivial, labels=labels)
        return Out(nt=not trivial, labels=labels)


class SpecLines(Spec):
    name = 'spec-as-lines'
    forms = ('lines',)
    rule = 'the same corpus supplied as a list of lines'


class C02(Prop):
    id = 'C02'
    rule = ('complete enumeration of the 652 vendored spec examples (as str and as list of lines); '
            'non-trivial = expected HTML differs from an escaped single paragraph')
    assumptions = (
        'comparison uses a Python 3 port of commonmark-spec test/normalize.py (vf/oracle/htmlnorm.py)',
        'corpus checksum pinned; /repo/test/specification is not read',
    )

    def selfcheck(self):
        """The normaliser may only forgive whitespace / attribute order: it must keep (nearly all) distinct
        expected outputs distinct, and must tell a few hand-made wrong outputs from the right ones."""
        ex = corpus.spec_examples()
        norm = [normalize(e['html']) for e in ex]
        distinct_raw = len({e['html'].strip() for e in ex})
        distinct_norm = len(set(norm))
        if distinct_norm < distinct_raw - 25:
            raise RuntimeError('normaliser merges too many distinct expected outputs: %d -> %d' % (distinct_raw, distinct_norm))
        for a, b in [('<p>a</p>', '<p>b</p>'), ('<ul>\n<li>a</li>\n</ul>', '<ul>\n<li>\n<p>a</p>\n</li>\n</ul>'),
                     ('<h1>a</h1>', '<h2>a</h2>'), ('<p><a href="/u">a</a></p>', '<p><a href="/v">a</a></p>'),
                     ('<pre><code>a\n b\n</code></pre>', '<pre><code>a\nb\n</code></pre>'), ('<p>a<br />\nb</p>', '<p>a\nb</p>')]:
            if normalize(a) == normalize(b):
                raise RuntimeError('normaliser equates %r and %r' % (a, b))
        return 'normaliser keeps %d of %d distinct expected outputs distinct; 6 wrong/right pairs told apart' % (distinct_norm, distinct_raw)

    def parts(self):
        return [Spec(), SpecLines()]


PROP = C02()
