"""C02 — all 652 CommonMark 0.30 examples render as specified (complete enumeration)."""
import html

from ..core import EnumPart, Fail, Out, Prop, exc_sig
from ..gen import corpus
from ..oracle.htmlnorm import normalize


def render(md, form='str'):
    from mistletoe import Document, HtmlRenderer
    if form == 'lines':
        md = md.splitlines(keepends=True)
    with HtmlRenderer(html_escape_double_quotes=True) as r:
        return r.render(Document(md))


class Spec(EnumPart):
    name = 'spec'
    rule = ('every example of the vendored spec 0.30 corpus; non-trivial = expected HTML is not just '
            '<p>escaped input</p>; distinct = example number')
    forms = ('str',)

    def items(self, tier, k, n):
        ex = corpus.spec_examples()
        for i in range(k, len(ex), n):
            for form in self.forms:
                yield {'example': ex[i]['example'], 'form': form}

    def check(self, case):
        e = corpus.spec_examples()[case['example'] - 1]
        assert e['example'] == case['example']
        md, exp = e['markdown'], e['html']
        trivial = exp == '<p>%s</p>\n' % html.escape(md.strip('\n'), quote=True)
        labels = ('section:' + e['section'],)
        try:
            got = render(md, case['form'])
        except Exception as exc:
            return Out(Fail('spec-example', 'raised ' + exc_sig(exc), example=e['example'], markdown=md,
                            error=repr(exc)), nt=not trivial, labels=labels)
        if normalize(got) != normalize(exp):
            return Out(Fail('spec-example', 'example %d' % e['example'], example=e['example'], section=e['section'],
                            markdown=md, expected=exp, actual=got), nt=not trivial, labels=labels)
        return Out(nt=not trivial, labels=labels)


class SpecLines(Spec):
    name = 'spec-as-lines'
    forms = ('lines',)
    rule = 'the same corpus supplied as a list of lines'


class C02(Prop):
    id = 'C02'
    rule = ('complete enumeration of the 652 vendored spec examples (as str and as list of lines); '
            'non-trivial = expected HTML differs from an escaped single paragraph')
    assumptions = (
        'comparison uses a Python 3 port of commonmark-spec test/normalize.py (vf/oracle/htmlnorm.py)',
        'corpus checksum pinned; /repo/test/specification is not read',
    )

    def parts(self):
        return [Spec(), SpecLines()]


PROP = C02()
