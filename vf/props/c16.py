"""C16 — inline tokenization tiles the source; custom tokens obey precedence rules."""
import itertools
import re

from ..core import EnumPart, Fail, HypPart, Out, Prop, exc_sig
from ..gen.tape import Tape, tapes

TEXT = 'abcdefghijklmnopqrstuvwxyz'

# spans of A and B for each of the 13 Allen interval relations "A rel B"
ALLEN = {
    'before': ((2, 6), (8, 12)), 'meets': ((2, 6), (6, 10)), 'overlaps': ((2, 8), (5, 12)), 'starts': ((2, 6), (2, 12)),
    'during': ((5, 9), (2, 14)), 'finishes': ((8, 12), (2, 12)), 'equals': ((2, 10), (2, 10)), 'after': ((8, 12), (2, 6)),
    'met-by': ((6, 10), (2, 6)), 'overlapped-by': ((5, 12), (2, 8)), 'started-by': ((2, 12), (2, 6)),
    'contains': ((2, 14), (5, 9)), 'finished-by': ((2, 12), (8, 12)),
}
RELS = sorted(ALLEN)


class _WholeMatch:
    """Match object whose only group is group 0 (for parse_group = 0)."""

    def __init__(self, s, e, string):
        self.s, self.e, self.string = s, e, string

    def start(self, n=0):
        return self.s

    def end(self, n=0):
        return self.e

    def group(self, n=0):
        return self.string[self.s:self.e]


def _synthetic_type(name, span, pg, prec, inner, width=1):
    from mistletoe.span_token import SpanToken
    from mistletoe.core_tokens import MatchObj
    s, e = span
    ps, pe = (s, e) if pg == 0 else (s + width, e - width)

    class T(SpanToken):
        precedence = prec
        parse_inner = inner
        parse_group = pg

        def __init__(self, m):
            self.span = (m.start(), m.end())
            self.pspan = (m.start(pg), m.end(pg))
            if not inner:
                self.content = m.group(pg)

        @classmethod
        def find(cls, string):
            if pg == 0:
                return [_WholeMatch(s, e, string)]
            return [MatchObj(s, e, (ps, pe, string[ps:pe]))]

    T.__name__ = name
    T.__qualname__ = name
    return T


def _renderer_for(types):
    from mistletoe.base_renderer import BaseRenderer
    ns = {}
    for t in types:
        # documented naming convention: render_ + snake-case of the class name (all names used here are one word)
        ns['render_' + t.__name__.lower()] = lambda self, token: ''
    return type('R', (BaseRenderer,), ns)


def shape(tokens):
    out = []
    for t in tokens:
        n = type(t).__name__
        if n == 'RawText':
            continue
        out.append([n, shape(t.children) if t.children else []])
    return out


def tiling_errors(tokens, lo, hi, source, custom_names):
    """Invariants: source order, disjoint, inside [lo,hi], text recovered exactly."""
    errs = []
    pos = lo
    for t in tokens:
        n = type(t).__name__
        if n == 'RawText':
            seg = t.content
            if source[pos:pos + len(seg)] != seg or pos + len(seg) > hi:
                errs.append('raw text %r does not continue the source at %d (expected %r)' % (seg, pos, source[pos:pos + len(seg)]))
                return errs
            pos += len(seg)
        elif n in custom_names:
            s, e = t.span
            ps, pe = t.pspan
            if s != pos:
                errs.append('%s starts at %d but the previous token ended at %d' % (n, s, pos))
                return errs
            if not (lo <= s <= ps <= pe <= e <= hi):
                errs.append('%s span %r / parse span %r not ordered inside [%d,%d]' % (n, t.span, t.pspan, lo, hi))
                return errs
            if type(t).parse_inner:
                if t.children is None:
                    errs.append('%s parses inner but has no children list' % n)
                    return errs
                errs += tiling_errors(t.children, ps, pe, source, custom_names)
                if errs:
                    return errs
            else:
                if t.children:
                    errs.append('%s does not parse inner but has children' % n)
                if getattr(t, 'content', None) != source[ps:pe]:
                    errs.append('%s content %r != source[%d:%d]' % (n, getattr(t, 'content', None), ps, pe))
                    return errs
            pos = e
        else:
            errs.append('unexpected token %s' % n)
            return errs
    if pos != hi:
        errs.append('tokens end at %d, parent parse group ends at %d' % (pos, hi))
    return errs


def parse_under(types, text):
    from mistletoe import Document
    R = _renderer_for(types)
    with R(*types) as r:
        doc = Document(text)
    return doc


class _Leave(Exception):
    pass


def after_context_errors(types, text):
    from mistletoe import Document, block_token, span_token
    errs = _after_context_errors(types, text, 'normal exit')
    # the context is also left when an exception propagates out of the with block
    try:
        R = _renderer_for(types)
        with R(*types):
            Document(text)
            raise _Leave()
    except _Leave:
        pass
    errs += _after_context_errors(types, text, 'exit by exception')
    # the renderer's context may lie inside another renderer's: leaving it ends the recognition all the same
    from mistletoe import HtmlRenderer
    names = {t.__name__ for t in types}
    with HtmlRenderer():
        R = _renderer_for(types)
        with R(*types):
            Document(text)
        stack = list(Document(text).children)
        while stack:
            t = stack.pop()
            if type(t).__name__ in names:
                errs.append('custom token %s recognised after its context was left (inside an enclosing context)' % type(t).__name__)
            if t.children:
                stack.extend(t.children)
    return errs + _after_context_errors(types, text, 'exit of an enclosing context')


def _after_context_errors(types, text, how):
    from mistletoe import Document, block_token, span_token
    errs = []
    names = {t.__name__ for t in types}
    doc = Document(text)
    stack = list(doc.children)
    while stack:
        t = stack.pop()
        if type(t).__name__ in names:
            errs.append('custom token %s recognised outside the renderer context (%s)' % (type(t).__name__, how))
        if t.children:
            stack.extend(t.children)
    want_s = [getattr(span_token, n) for n in span_token.__all__]
    want_b = [getattr(block_token, n) for n in block_token.__all__]
    if span_token._token_types != want_s or any(a is not b for a, b in zip(span_token._token_types, want_s)):
        errs.append('span token list not restored (%s): %r' % (how, [c.__name__ for c in span_token._token_types]))
        span_token.reset_tokens()
    if block_token._token_types != want_b:
        errs.append('block token list not restored (%s)' % how)
        block_token.reset_tokens()
    return errs


def expected_pair(a, b):
    """a, b = dicts(name, span, pg, prec, inner).  Returns the expected shape, or None where the statement
    is silent (equal starts; match wholly inside the other's delimiter; container that does not parse inner)."""
    x, y = (a, b) if a['span'][0] <= b['span'][0] else (b, a)
    (xs, xe), (ys, ye) = x['span'], y['span']
    if xe <= ys:
        return [[x['name'], []], [y['name'], []]]
    if xs == ys:
        return None
    xps, xpe = (xs, xe) if x['pg'] == 0 else (xs + 1, xe - 1)
    if xps <= ys and ye <= xpe:
        return [[x['name'], [[y['name'], []]]]] if x['inner'] else None
    if xpe <= ys and ye <= xe:
        return None
    if ye <= xps:
        return None
    win = x if x['prec'] >= y['prec'] else y
    return [[win['name'], []]]


class PairTable(EnumPart):
    name = 'pair-table'
    rule = ('all pairs of synthetic custom span tokens: 13 Allen relations x precedence 3..7 each x parse_inner x parse_group {0,1} '
            'x both registration orders = 10400 cases; outcome asserted where the statement is unambiguous, invariants everywhere; '
            'non-trivial = the two matches overlap')

    def items(self, tier, k, n):
        idx = 0
        for rel in RELS:
            for pa, pb in itertools.product(range(3, 8), repeat=2):
                for ia, ib in itertools.product((True, False), repeat=2):
                    for ga, gb in itertools.product((0, 1), repeat=2):
                        for order in (0, 1):
                            idx += 1
                            if idx % n == k:
                                yield {'rel': rel, 'pa': pa, 'pb': pb, 'ia': ia, 'ib': ib, 'ga': ga, 'gb': gb, 'order': order}

    def check(self, c):
        sa, sb = ALLEN[c['rel']]
        a = dict(name='A', span=tuple(sa), pg=c['ga'], prec=c['pa'], inner=c['ia'])
        b = dict(name='B', span=tuple(sb), pg=c['gb'], prec=c['pb'], inner=c['ib'])
        A = _synthetic_type('A', a['span'], a['pg'], a['prec'], a['inner'])
        B = _synthetic_type('B', b['span'], b['pg'], b['prec'], b['inner'])
        types = [A, B] if c['order'] == 0 else [B, A]
        overlap = not (sa[1] <= sb[0] or sb[1] <= sa[0])
        want = expected_pair(a, b)
        labels = ('rel:' + c['rel'], 'asserted' if want is not None else 'invariants-only')
        try:
            doc = parse_under(types, TEXT)
            toks = doc.children[0].children
            got = shape(toks)
            errs = tiling_errors(toks, 0, len(TEXT), TEXT, {'A', 'B'})
            errs += after_context_errors(types, TEXT)
        except Exception as exc:
            return Out(Fail('no-raise', 'raised ' + exc_sig(exc), case=c, error=repr(exc)), nt=overlap, labels=labels)
        if errs:
            return Out(Fail('tiling', 'invariant', case=c, errors=errs[:4], shape=got), nt=overlap, labels=labels)
        if want is not None and got != want:
            return Out(Fail('precedence', 'outcome %s' % c['rel'], case=c, expected=want, actual=got), nt=overlap, labels=labels)
        if want is None:
            # even where the outcome is not asserted, at most the two candidates may appear, each at most once
            flat = re.findall(r"'([AB])'", repr(got))
            if len(flat) != len(set(flat)) or not flat:
                return Out(Fail('precedence', 'candidate lost or duplicated', case=c, actual=got), nt=overlap, labels=labels)
        return Out(nt=overlap, labels=labels)


class DelimiterTable(EnumPart):
    """One token X with delimiters three characters wide against every other span Y inside X's span: Y in the parse
    group nests; Y touching a delimiter conflicts with X and the statement's rule applies (higher precedence wins, the
    earlier match on a tie) -- also when Y lies wholly inside a delimiter."""
    name = 'delimiter-table'
    rule = ('X = [1,11) with parse group [4,8) against every Y = [i,j) with 1 < i < j <= 11 (Y starts after X) x precedences 3..7 each x '
            'parse_inner of X x both registration orders = 4 500 cases; expected: Y inside the parse group nests (if X parses inner), any other '
            'Y conflicts and the higher precedence wins, X on a tie; non-trivial = Y touches a delimiter of X')

    def items(self, tier, k, n):
        idx = 0
        for i in range(2, 11):
            for j in range(i + 1, 12):
                for px, py in itertools.product(range(3, 8), repeat=2):
                    for inner in (True, False):
                        for order in (0, 1):
                            idx += 1
                            if idx % n == k:
                                yield {'y': [i, j], 'px': px, 'py': py, 'inner': inner, 'order': order}

    def check(self, c):
        ys, ye = c['y']
        X = _synthetic_type('A', (1, 11), 1, c['px'], c['inner'], width=3)
        Y = _synthetic_type('B', (ys, ye), 0, c['py'], False)
        types = [X, Y] if c['order'] == 0 else [Y, X]
        in_group = 4 <= ys and ye <= 8
        touches = not in_group
        if in_group:
            want = [['A', [['B', []]]]] if c['inner'] else None        # (a container that does not parse inner: statement silent)
        else:
            want = [['A', []]] if c['px'] >= c['py'] else [['B', []]]
        where = 'group' if in_group else ('closing-delimiter' if ys >= 8 else ('opening-delimiter' if ye <= 4 else 'straddles'))
        labels = ('y:' + where, 'asserted' if want is not None else 'invariants-only')
        try:
            doc = parse_under(types, DTEXT)
            toks = doc.children[0].children
            got = shape(toks)
            errs = tiling_errors(toks, 0, len(DTEXT), DTEXT, {'A', 'B'})
        except Exception as exc:
            return Out(Fail('no-raise', 'raised ' + exc_sig(exc), case=c, error=repr(exc)), nt=touches, labels=labels)
        if errs:
            return Out(Fail('tiling', 'invariant', case=c, errors=errs[:4], shape=got), nt=touches, labels=labels)
        if want is not None and got != want:
            return Out(Fail('precedence', 'delimiter outcome ' + where, case=c, where=where, expected=want, actual=got), nt=touches, labels=labels)
        return Out(nt=touches, labels=labels)

    def known_class(self, case, fail):
        # recorded finding F50: a match lying wholly inside another match's closing delimiter is dropped even when its precedence is higher
        d = fail.detail if hasattr(fail, 'detail') else {}
        if fail.sig.endswith('delimiter outcome closing-delimiter') and case['py'] > case['px']:
            return 'match_in_closing_delimiter'
        return None


DTEXT = 'abcdefghijkl'


class NestedPairTable(PairTable):
    """The same pairs inside the parse group of a third custom token: exercises the child-resolution path
    (eval_new_child) with the outcome table of the statement."""
    name = 'nested-pair-table'
    rule = ('the 10400 pair configurations placed inside the parse group of an enclosing custom token W (parse_inner, '
            'parse_group 0, spanning the whole text): expected = W containing the pair outcome')

    def check(self, c):
        sa, sb = ALLEN[c['rel']]
        a = dict(name='A', span=tuple(sa), pg=c['ga'], prec=c['pa'], inner=c['ia'])
        b = dict(name='B', span=tuple(sb), pg=c['gb'], prec=c['pb'], inner=c['ib'])
        A = _synthetic_type('A', a['span'], a['pg'], a['prec'], a['inner'])
        B = _synthetic_type('B', b['span'], b['pg'], b['prec'], b['inner'])
        W = _synthetic_type('W', (0, len(TEXT)), 0, 5, True)
        types = [W, A, B] if c['order'] == 0 else [B, A, W]
        overlap = not (sa[1] <= sb[0] or sb[1] <= sa[0])
        want = expected_pair(a, b)
        labels = ('rel:' + c['rel'], 'asserted' if want is not None else 'invariants-only')
        try:
            doc = parse_under(types, TEXT)
            toks = doc.children[0].children
            got = shape(toks)
            errs = tiling_errors(toks, 0, len(TEXT), TEXT, {'A', 'B', 'W'})
            errs += after_context_errors(types, TEXT)
        except Exception as exc:
            return Out(Fail('no-raise', 'raised ' + exc_sig(exc), case=c, error=repr(exc)), nt=overlap, labels=labels)
        if errs:
            return Out(Fail('tiling', 'invariant (nested)', case=c, errors=errs[:4], shape=got), nt=overlap, labels=labels)
        if len(got) != 1 or got[0][0] != 'W':
            return Out(Fail('precedence', 'enclosing token lost', case=c, actual=got), nt=overlap, labels=labels)
        if want is not None and got[0][1] != want:
            return Out(Fail('precedence', 'nested outcome %s' % c['rel'], case=c, expected=[['W', want]], actual=got), nt=overlap, labels=labels)
        return Out(nt=overlap, labels=labels)


PATTERNS = [
    (r'\{([^{}]*)\}', (0, 1)), (r'\{\{(.+?)\}\}', (0, 1)), (r'\(([a-z ]+)\)', (0, 1)), (r'@([a-z]+)', (0, 1)),
    (r'=(.+?)=', (0, 1)), (r':([a-z]*):', (0, 1)), (r';[a-z]+', (0,)), (r'([a-z]+)/([a-z]+)', (0, 1, 2)),
    (r'\|(.*?)\|', (0, 1)), (r'\((.*)\)', (0, 1)), (r'[a-z]{3}', (0,)), (r'\{(.*?)\)', (0, 1)), (r'=([^=]*);', (0, 1)),
    (r'/(.+)/', (0, 1)),
]
ALPHA = list('abcxyz') * 3 + list('{}()@=:;/|') * 2 + [' ', ' ', ' ']
NAMES = ['Ta', 'Tb', 'Tc', 'Td']


def _regex_type(name, pat, pg, prec, inner):
    from mistletoe.span_token import SpanToken

    class T(SpanToken):
        pattern = re.compile(pat)
        precedence = prec
        parse_inner = inner
        parse_group = pg

        def __init__(self, m):
            self.span = (m.start(), m.end())
            self.pspan = (m.start(pg), m.end(pg))
            if not inner:
                self.content = m.group(pg)

    T.__name__ = name
    T.__qualname__ = name
    return T


WRAPS = [('{', '}'), ('{{', '}}'), ('(', ')'), ('=', '='), (':', ':'), ('|', '|'), ('/', '/'), ('{', ')'), ('=', ';'), ('@', ''), (';', '')]


def _text(t, depth):
    """letters, delimiters and spaces; biased towards instances of the patterns, nested and overlapping"""
    out = []
    for _ in range(1 + t.below(5 if depth == 0 else 3)):
        k = t.below(10)
        if k < 3:
            out.append(''.join(t.choice('abcxyz') for _ in range(1 + t.below(5))))
        elif k < 8 and depth < 3:
            a, b = t.choice(WRAPS)
            inner = _text(t, depth + 1) if a not in ('@', ';') else ''.join(t.choice('abc') for _ in range(1 + t.below(4)))
            out.append(a + inner + b)
        elif k == 8:
            out.append(''.join(t.choice('abc') for _ in range(1 + t.below(3))) + '/' + ''.join(t.choice('xyz') for _ in range(1 + t.below(3))))
        else:
            out.append(''.join(t.choice(ALPHA) for _ in range(1 + t.below(8))))
    return t.choice([' ', ' ', '']).join(out)


class RandomSets(HypPart):
    name = 'random-sets'
    budget = {'quick': 12000, 'thorough': 400000}
    rule = ('1..4 regex-based custom token types (14 patterns over { } ( ) @ = : ; / | delimiters; random precedence 1..9, parse_inner, '
            'parse_group) over random texts <= 60 of letters, delimiters and spaces (no character a built-in token reacts to); '
            'tiling / order / containment invariants and context confinement; non-trivial = >= 2 custom tokens recognised or a nesting')

    def strategy(self, tier):
        return tapes(30, 400)

    def expand(self, drawn):
        t = Tape(drawn)
        while not t.exhausted():
            types = []
            for i in range(1 + t.below(4)):
                pi = t.below(len(PATTERNS))
                types.append({'pat': pi, 'pg': t.choice(PATTERNS[pi][1]), 'prec': 1 + t.below(9), 'inner': not t.chance(90)})
            text = _text(t, 0)[:60].strip() or 'a'
            yield {'types': types, 'text': text}

    def check(self, c):
        text = c['text']
        if not text.strip() or re.search(r'[^a-z{}()@=:;/| ]', text) or text != text.strip():
            return Out(skip='text outside the silent alphabet or with edge whitespace')
        try:
            types = [_regex_type(NAMES[i], PATTERNS[d['pat']][0], d['pg'], d['prec'], d['inner']) for i, d in enumerate(c['types'][:4])]
            for d in c['types'][:4]:
                if d['pg'] not in PATTERNS[d['pat']][1]:
                    return Out(skip='malformed case')
        except (KeyError, IndexError, TypeError):
            return Out(skip='malformed case')
        try:
            doc = parse_under(types, text)
            if len(doc.children) != 1 or type(doc.children[0]).__name__ != 'Paragraph':
                return Out(skip='text is not a single paragraph')
            toks = doc.children[0].children
            got = shape(toks)
            errs = tiling_errors(toks, 0, len(text), text, set(NAMES))
            errs += after_context_errors(types, text)
        except Exception as exc:
            return Out(Fail('no-raise', 'raised ' + exc_sig(exc), case=c, error=repr(exc)), nt=True)
        n_custom = len(re.findall(r"'T[abcd]'", repr(got)))
        nested = any(ch for _, ch in got)
        nt = n_custom >= 2 or nested
        labels = ('types:%d' % len(types),) + (('nested',) if nested else ())
        if errs:
            return Out(Fail('tiling', 'invariant', case=c, errors=errs[:4], shape=got), nt=nt, labels=labels)
        return Out(nt=nt, labels=labels)


class EscapeVsCustom(EnumPart):
    """A custom token whose only candidate match begins at a backslash-escaped punctuation character conflicts with the
    built-in EscapeSequence (precedence 2, starts one character earlier, the match does not lie in its parse group): by the
    statement the higher precedence wins and the escape, being earlier, wins a tie."""
    name = 'escape-vs-custom'
    rule = ('5 custom patterns x precedence 1..9 x parse_inner x 3 texts in which the only candidate starts at an escaped character: '
            'the custom token is there iff its precedence exceeds 2; non-trivial = all; distinct = (pattern, precedence, flag, text)')
    CASES = [(r'@([a-z]+)', 'see \\@bob now', 5, 9), (r'\{([^{}]*)\}', 'x \\{ab} y', 3, 7), (r'=(.+?)=', '\\=a= b', 1, 4),
             (r'\(([a-z ]+)\)', 'a \\(bc) d', 3, 7), (r';[a-z]+', 'q \\;ab', 3, 6)]

    def shards(self, tier):
        return 1

    def items(self, tier, k, n):
        for ci in range(len(self.CASES)):
            for prec in range(1, 10):
                for inner in (True, False):
                    yield {'case': ci, 'prec': prec, 'inner': inner}

    def check(self, c):
        try:
            pat, text, s, e = self.CASES[c['case']]
            prec, inner = int(c['prec']), bool(c['inner'])
        except (KeyError, IndexError, TypeError, ValueError):
            return Out(skip='malformed case')
        T = _regex_type('Ta', pat, 0, prec, inner)
        labels = ('precedence:%s2' % ('>' if prec > 2 else '<='),)
        try:
            doc = parse_under([T], text)
            toks = doc.children[0].children
        except Exception as exc:
            return Out(Fail('no-raise', 'raised ' + exc_sig(exc), case=c, error=repr(exc)), nt=True, labels=labels)
        spans = [t.span for t in toks if type(t).__name__ == 'Ta']
        kinds = [type(t).__name__ for t in toks]
        want = [(s, e)] if prec > 2 else []
        if spans != want or (prec <= 2 and 'EscapeSequence' not in kinds):
            return Out(Fail('precedence', 'custom token against an escape sequence', case=c, text=text, pattern=pat, expected_spans=want,
                            actual_spans=spans, tokens=kinds), nt=True, labels=labels)
        return Out(nt=True, labels=labels)


class C16(Prop):
    id = 'C16'
    rule = PairTable.rule
    assumptions = (
        'custom tokens record their match offsets in __init__ (the documented extension point); synthetic matches use core_tokens.MatchObj',
        'outcome is asserted only where the statement is unambiguous: not for equal starts or for a containing token that does not parse '
        'its inner text (invariants are still checked there); a match that touches or lies inside a delimiter of the other conflicts with '
        'it and is decided by precedence (delimiter-table; the pair tables, whose delimiters are one character wide, leave that cell open)',
    )

    def parts(self):
        return [PairTable(), NestedPairTable(), DelimiterTable(), EscapeVsCustom(), RandomSets()]


PROP = C16()
