"""C06 — emphasis nesting equals the specification's delimiter-run algorithm."""
import itertools
import re

from hypothesis import strategies as st

from ..core import EnumPart, Fail, HypPart, Out, Prop, exc_sig
from ..gen import corpus
from ..gen.tape import Tape, tapes
from ..oracle import emphasis


def impl(t):
    from mistletoe import Document, HtmlRenderer
    with HtmlRenderer() as r:
        out = r.render(Document('# ' + t))
    if not (out.startswith('<h1>') and out.endswith('</h1>\n')):
        raise AssertionError('heading wrapper missing: %r' % out)
    return out[4:-6]


def check_text(t):
    core = t.strip()
    rs = emphasis.runs(core)
    nt = False
    seen_open = False
    for ch, n, op, cl in rs:
        if cl and seen_open:
            nt = True
            break
        if op:
            seen_open = True
    labels = ('runs:%d' % min(len(rs), 6),)
    if core == '':
        return Out(skip='empty heading')
    try:
        got = impl(t)
    except Exception as exc:
        return Out(Fail('no-failure', 'raised ' + exc_sig(exc), text=t, error=repr(exc)), nt=nt, labels=labels)
    want = emphasis.model(core)
    if got != want:
        return Out(Fail('structure', 'mismatch', text=t, expected=want, actual=got), nt=nt, labels=labels)
    return Out(nt=nt, labels=labels)


class EnumStrings(EnumPart):
    """All strings over an alphabet up to a length, sharded by 3-symbol prefix."""

    def __init__(self, name, alphabet, lengths):
        self.name = name
        self.alphabet = alphabet
        self.lengths = lengths
        self.rule = ('all strings over %r up to length %r, each rendered as "# "+s; non-trivial = at least two '
                     'delimiter runs with a potential opener before a potential closer' % (alphabet, lengths))

    def items(self, tier, k, n):
        alpha = self.alphabet
        top = self.lengths[tier]
        if k == 0:
            for L in range(1, min(3, top) + 1):
                for tup in itertools.product(alpha, repeat=L):
                    yield {'text': ''.join(tup)}
        prefixes = [''.join(p) for p in itertools.product(alpha, repeat=3)]
        for idx, pre in enumerate(prefixes):
            if idx % n != k:
                continue
            for L in range(4, top + 1):
                for tup in itertools.product(alpha, repeat=L - 3):
                    yield {'text': pre + ''.join(tup)}

    def check(self, case):
        return check_text(case['text'])


_LETTERS = 'abzAZ09éß中'
_PUNCT = '.,;:!?\'"()-+=/|^$%@{}>' + '«»—“”…¡¿。'
# Unicode symbols (categories Sc, Sm, So, Sk): NOT punctuation for the flanking rules of spec 0.30; a control character and
# combining / format characters: neither whitespace nor punctuation
_SYMBOLS = '\u20ac\u00a3\u00a9\u2192\u00d7\u00b0\u00ac\u2603\u00a8' + '\x1f\u0301\u200b\u00ad'
_SPACES = '   　  \t'


class RandomStrings(HypPart):
    name = 'random-wide-alphabet'
    budget = {'quick': 16000, 'thorough': 800000}
    rule = ('Hypothesis strings of 1..40 symbols over letters/digits, ASCII+Unicode punctuation, Unicode symbols (not punctuation in 0.30), a control, a combining and two format characters, Unicode Zs spaces, '
            'tab and runs of * and _ (characters with another inline meaning excluded); same non-triviality rule')

    _SYMS = (['*', '**', '***', '_', '__', '___', '*', '_', '****', '_____'] * 2
             + list(_LETTERS) + list(_PUNCT) + list(_SYMBOLS) + list(_SPACES) + ['a', ' ', ' ', 'b'])

    def strategy(self, tier):
        return tapes(40, 400)

    def expand(self, drawn):
        t = Tape(drawn)
        while not t.exhausted():
            n = t.between(1, 40)
            yield {'text': ''.join(t.choice(self._SYMS) for _ in range(n))}

    def check(self, case):
        t = case['text']
        if re.search(r'[\[\]\\`<&~#\n\r]', t):
            return Out(skip='character with another inline meaning')
        return check_text(t)


class LongRange(HypPart):
    """An opener and its closer separated by up to 300 delimiter runs that stay unmatched: the algorithm's opener
    search, its bottoms and the stack surgery over long distances (a bounded look-back, a quadratic short cut)."""
    name = 'long-range'
    budget = {'quick': 1500, 'thorough': 60000}
    rule = ('outer run of 1-3 delimiters + word + n in 1..300 filler units drawn from unmatched-run shapes (_a , a_ , *a , (* , __a , '
            '**a , a** , _*a ...) + word + closing run; optionally a second such span after it; compared with the model; '
            'non-trivial = n >= 40; distinct = distinct string')
    required_labels = {'n>=64': 0.2}

    _FILL = ['_a ', 'a_ ', '*a ', '(*a ', '__a ', '**a ', 'a** ', '_*a ', 'a ', '. ', '*(a ', 'a* ', 'a__ ', '___a ']

    def strategy(self, tier):
        return tapes(12, 60)

    def expand(self, drawn):
        t = Tape(drawn)
        parts = []
        n_total = 0
        for _ in range(1 + t.below(2)):
            ch = t.choice('*_')
            k = 1 + t.below(3)
            n = t.weighted([(2, 1 + t.below(40)), (3, 40 + t.below(80)), (2, 120 + t.below(181))])
            fills = [t.choice(self._FILL) for _ in range(1 + t.below(3))]
            body = ''.join(fills[i % len(fills)] for i in range(n))
            parts.append(ch * k + 'foo ' + body + 'bar' + ch * t.choice([k, k, 1, 2, 3]))
            n_total = max(n_total, n)
        yield {'text': ' '.join(parts), 'n': n_total}

    def check(self, case):
        out = check_text(case['text'])
        n = case.get('n', 0)
        out.nt = n >= 40
        out.labels = tuple(out.labels) + (('n>=64',) if n >= 64 else ('n<64',))
        return out


class C06(Prop):
    id = 'C06'
    rule = ('exhaustive small-alphabet strings plus random wide-alphabet strings, rendered in heading context and '
            'compared with an independent model of the spec delimiter algorithm; non-trivial = a potential opener '
            'run precedes a potential closer run; distinct = distinct input string')
    assumptions = (
        'reference model vf/oracle/emphasis.py is written from spec 0.30 text; it is validated at start-up against '
        'every link/code/escape-free example of the spec section "Emphasis and strong emphasis"',
        'heading context ("# " + s) is used so that * and _ cannot be read as block markers; leading/trailing '
        'whitespace is stripped by the heading and is equivalent to a line boundary for flanking',
    )

    def selfcheck(self):
        ok = 0
        for e in corpus.spec_examples():
            if e['section'] != 'Emphasis and strong emphasis':
                continue
            md = e['markdown'].rstrip('\n')
            if re.search(r'[\[\]`<>\\&\n]', md) or md.startswith(('* ', '- ')):
                continue
            exp = e['html'].rstrip('\n')
            if not (exp.startswith('<p>') and exp.endswith('</p>')):
                continue
            got = emphasis.model(md).replace('"', '&quot;')
            if got != exp[3:-4]:
                raise RuntimeError('emphasis model disagrees with spec example %d: %r -> %r, spec %r'
                                   % (e['example'], md, got, exp[3:-4]))
            ok += 1
        if ok < 100:
            raise RuntimeError('emphasis model validated on only %d spec examples' % ok)
        return ok

    def parts(self):
        return [
            EnumStrings('enum-5sym', 'a *_.', {'quick': 8, 'thorough': 11}),
            EnumStrings('enum-star', 'a*', {'quick': 14, 'thorough': 17}),
            EnumStrings('enum-underscore', 'a_', {'quick': 14, 'thorough': 17}),
            EnumStrings('enum-star-underscore', 'a*_', {'quick': 10, 'thorough': 13}),
            RandomStrings(),
            LongRange(),
        ]


PROP = C06()
