"""C13 — every block token reports the source line on which it starts."""
from .. import renderers
from ..core import EnumPart, Fail, HypPart, Out, Prop, exc_sig
from ..gen.tape import hex_tapes
from . import c03

KIND = {'para': 'Paragraph', 'atx': 'Heading', 'setext': 'SetextHeading', 'hr': 'ThematicBreak', 'fence': 'CodeFence',
        'icode': 'BlockCode', 'quote': 'Quote', 'list': 'List', 'table': 'Table', 'htmlblock': 'HtmlBlock'}


class Mismatch(Exception):
    pass


def compare(model_children, tokens, path, errs, stats, parent_line):
    mods = [b for b in model_children if b.kind != 'defs']
    if len(mods) != len(tokens):
        raise Mismatch('%s: %d model blocks, %d tokens' % (path, len(mods), len(tokens)))
    for i, (b, tok) in enumerate(zip(mods, tokens)):
        name = type(tok).__name__
        p = '%s/%s[%d]' % (path, name, i)
        if KIND.get(b.kind) != name:
            raise Mismatch('%s: model %s, token %s' % (p, b.kind, name))
        want = b.a.get('line')
        stats['blocks'] += 1
        if tok.line_number != want:
            errs.append('%s: line_number %r, block starts on line %r' % (p, tok.line_number, want))
        if parent_line is not None and want is not None and want > parent_line and len(path.split('/')) >= 3:
            stats['deep'] += 1
        if b.kind == 'quote':
            compare(b.children, tok.children, p, errs, stats, want)
        elif b.kind == 'list':
            if len(b.items) != len(tok.children):
                raise Mismatch('%s: %d model items, %d tokens' % (p, len(b.items), len(tok.children)))
            for j, (it, ti) in enumerate(zip(b.items, tok.children)):
                pi = '%s/ListItem[%d]' % (p, j)
                stats['blocks'] += 1
                if ti.line_number != it.a.get('line'):
                    errs.append('%s: line_number %r, item starts on line %r' % (pi, ti.line_number, it.a.get('line')))
                compare(it.children, ti.children, pi, errs, stats, it.a.get('line'))
        elif b.kind == 'table':
            rl = b.a.get('row_lines', {})
            hdr = getattr(tok, 'header', None)
            rows = [hdr] + list(tok.children)
            if hdr is None or len(rows) != 1 + len(b.rows):
                raise Mismatch('%s: table rows differ' % p)
            for ri, row in enumerate(rows):
                stats['blocks'] += 1
                if row.line_number != rl.get(ri):
                    errs.append('%s/TableRow[%d]: line_number %r, row is on line %r' % (p, ri, row.line_number, rl.get(ri)))
                for ci, cell in enumerate(row.children):
                    stats['blocks'] += 1
                    if cell.line_number != rl.get(ri):
                        errs.append('%s/TableRow[%d]/TableCell[%d]: line_number %r, row is on line %r' % (
                            p, ri, ci, cell.line_number, rl.get(ri)))


def check_case(case, excludes):
    from mistletoe import Document
    try:
        doc, text, exp, res = c03.build(case, {'exclude': excludes, 'refs': int(case['tape'][:2] or '0', 16) % 2 == 0})
    except (ValueError, KeyError, TypeError) as exc:
        return Out(skip='malformed case: %r' % (exc,))
    kinds, inl, depth = c03.model_labels(doc)
    try:
        with renderers.make('Html') as r:
            parsed = Document(text)
    except Exception as exc:
        return Out(skip='raised ' + exc_sig(exc))
    errs = []
    stats = {'blocks': 0, 'deep': 0}
    try:
        compare(doc.children, parsed.children, 'Document', errs, stats, None)
    except Mismatch as m:
        return Out(skip='structure differs from the model (decided by C03)')
    nt = stats['deep'] > 0
    labels = ('depth:%d' % depth,) + tuple('block:' + k for k in sorted(kinds & {'item-blank-first', 'table', 'quote', 'list', 'htmlblock', 'fence'}))
    if doc.a.get('lazy_used'):
        labels += ('lazy-lines',)
    if doc.lead_blank:
        labels += ('leading-blank-lines',)
    if errs:
        return Out(Fail('line-number', 'wrong line', markdown=text, errors=errs[:6]), nt=nt, labels=labels)
    # the block tokens that exist only while the Markdown renderer is active: blank lines and definition blocks
    try:
        errs = markdown_mode_errors(text)
    except Exception as exc:
        return Out(skip='markdown-mode parse raised ' + exc_sig(exc), nt=nt, labels=labels)
    if errs:
        return Out(Fail('line-number', 'blank line / definition token', markdown=text, errors=errs[:6]), nt=nt, labels=labels)
    return Out(nt=nt, labels=labels)


def markdown_mode_errors(text):
    """Under the Markdown renderer's token set every blank line and every group of definitions is a block token too.  Their
    line must be a line of that kind (blank once quote markers and indentation are taken away; beginning with '['), and
    the children of one parent report increasing lines."""
    import re
    from mistletoe import Document
    with renderers.make('Markdown') as r:
        parsed = Document(text)
    lines = text.split('\n')
    errs = []
    stack = [parsed]
    while stack:
        tok = stack.pop()
        kids = [k for k in (tok.children or []) if hasattr(k, 'line_number')]
        prev = 0
        for k in kids:
            name = type(k).__name__
            ln = k.line_number
            if not isinstance(ln, int) or not 1 <= ln <= len(lines):
                errs.append('%s reports line %r of %d' % (name, ln, len(lines)))
                continue
            src = lines[ln - 1]
            if name == 'BlankLine' and not re.fullmatch(r'(?:[ \t>]|(?:[-+*]|\d{1,9}[.)])(?=[ \t]|$))*', src):
                errs.append('BlankLine reports line %d, which reads %r' % (ln, src))
            if name == 'LinkReferenceDefinitionBlock' and not re.match(r'(?:[ \t>]|(?:[-+*]|\d{1,9}[.)])(?=[ \t]))*\[', src):
                errs.append('LinkReferenceDefinitionBlock reports line %d, which reads %r' % (ln, src))
            if name in ('BlankLine', 'LinkReferenceDefinitionBlock') or prev:
                if ln < prev or (ln == prev and name == 'BlankLine'):
                    errs.append('%s under %s reports line %d after a sibling on line %d' % (name, type(tok).__name__, ln, prev))
            prev = max(prev, ln)
            stack.append(k)
    return errs


class Documents(HypPart):
    name = 'documents'
    budget = {'quick': 40000, 'thorough': 2000000}
    rule = ('G4 documents whose writer records the 1-based line of every block; parallel walk of the model and of Document(text) '
            '(HtmlRenderer token set); every Paragraph, Heading, SetextHeading, BlockCode, CodeFence, Quote, List, ListItem, Table, '
            'TableRow, TableCell, ThematicBreak, HtmlBlock must report that line; non-trivial = a block at depth >= 2 that starts '
            'on a later line than its container; distinct = distinct tape')
    required_labels = {'block:item-blank-first': 0.02, 'block:table': 0.05, 'lazy-lines': 0.01, 'leading-blank-lines': 0.05}

    def strategy(self, tier):
        return hex_tapes(20, 500 if tier == 'quick' else 1500).map(lambda h: {'tape': h, 'opts': {}})

    def describe(self, case):
        return c03.build(case, {'exclude': c03.Documents().excludes(), 'refs': int(case['tape'][:2] or '0', 16) % 2 == 0})[1]

    def check(self, case):
        return check_case(case, c03.Documents().excludes())


CURATED = [
    # (markdown, [(child index path from the Document, expected line_number)])
    ("-\n  foo\n", [((0,), 1), ((0, 0), 1), ((0, 0, 0), 2)]),
    ("\n\n# h\n\n> a\n> b\n>\n> - c\n>\n>   d\n", [((0,), 3), ((1,), 5), ((1, 0), 5), ((1, 1), 8), ((1, 1, 0), 8), ((1, 1, 0, 0), 8), ((1, 1, 0, 1), 10)]),
    ("1. a\n2.\n   b\n\n   ```\n   c\n   ```\n3. d\n", [((0, 0), 1), ((0, 1), 2), ((0, 1, 0), 3), ((0, 1, 1), 5), ((0, 2), 8), ((0, 2, 0), 8)]),
    ("| a |\n|---|\n| b |\n| c |\n", [((0,), 1), ((0, 0), 3), ((0, 1), 4), ((0, 1, 0), 4)]),
    ("[x]: /u\n\npara\n***\n    code\n", [((0,), 3), ((1,), 4), ((2,), 5)]),
    ("> -\n>   a\nlazy\n\nFoo\nbar\n===\n", [((0,), 1), ((0, 0), 1), ((0, 0, 0), 1), ((0, 0, 0, 0), 2), ((1,), 5)]),
]


class Curated(EnumPart):
    name = 'curated'
    no_shrink = True
    rule = 'hand-written documents with hand-counted line numbers (regressions and witnesses)'

    def shards(self, tier):
        return 1

    def items(self, tier, k, n):
        for md, exp in CURATED:
            yield {'markdown': md, 'expect': [[list(p), ln] for p, ln in exp]}

    def check(self, case):
        from mistletoe import Document
        with renderers.make('Html') as r:
            doc = Document(case['markdown'])
        errs = []
        for path, want in case['expect']:
            tok = doc
            try:
                for i in path:
                    tok = tok.children[i]
            except (IndexError, TypeError):
                errs.append('no token at %r' % (path,))
                continue
            if tok.line_number != want:
                errs.append('%s at %r: line_number %r, expected %r' % (type(tok).__name__, path, tok.line_number, want))
        if errs:
            return Out(Fail('line-number', 'curated', markdown=case['markdown'], errors=errs), nt=True)
        return Out(nt=True)


class C13(Prop):
    id = 'C13'
    rule = Documents.rule
    assumptions = (
        'documents whose token tree is structurally different from the model are skipped and counted (structure is C03\'s business)',
        'the writer (vf/gen/docwrite.py) records the line on which it writes the first character of each block, through all container prefixes',
    )

    def parts(self):
        return [Documents(), Curated()]


PROP = C13()
