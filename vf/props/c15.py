"""C15 — the same text gives the same result however it is supplied."""
import io
import os
import subprocess
import sys
import tempfile

from .. import env, renderers
from ..core import Fail, HypPart, Out, Prop, exc_sig
from ..gen import pools
from ..gen.tape import Tape, tapes

PATHS = {
    'Html': 'mistletoe.HtmlRenderer',
    'Markdown': 'mistletoe.markdown_renderer.MarkdownRenderer',
    'LaTeX': 'mistletoe.latex_renderer.LaTeXRenderer',
    'Ast': 'mistletoe.ast_renderer.AstRenderer',
    'Toc': 'mistletoe.contrib.toc_renderer.TocRenderer',
    'GithubWiki': 'mistletoe.contrib.github_wiki.GithubWikiRenderer',
    'MathJax': 'mistletoe.contrib.mathjax.MathJaxRenderer',
    'Pygments': 'mistletoe.contrib.pygments_renderer.PygmentsRenderer',
    'Jira': 'mistletoe.contrib.jira_renderer.JiraRenderer',
    'XWiki20': 'mistletoe.contrib.xwiki20_renderer.XWiki20Renderer',
}
NAMES = list(PATHS)

# characters at which str.splitlines splits but text-file iteration does not: outside the
# property's domain ("only line terminator is \n")
_OTHER_SEPARATORS = set('\r\x0b\x0c\x1c\x1d\x1e\x85  ')


def in_domain(text):
    return not (_OTHER_SEPARATORS & set(text))


def split_lines(text):
    parts = text.split('\n')
    last = parts.pop()
    return parts, last


def nontrivial(text, doc):
    blocks = len(doc.children or ())
    return (blocks >= 2 and any(ord(c) > 127 for c in text)) or (text != '' and not text.endswith('\n'))


class _Stdout:
    def __init__(self):
        self.buffer = io.BytesIO()

    def write(self, s):
        self.buffer.write(s.encode())

    def flush(self):
        pass


def forms_outputs(text, name):
    """All in-process input forms -> {form: output}."""
    import mistletoe
    from mistletoe import cli
    cls = renderers.renderer_class(name)
    res = {}
    res['str'] = mistletoe.markdown(text, cls)
    if text and not text.endswith('\n'):
        res['str+newline'] = mistletoe.markdown(text + '\n', cls)
    elif text.endswith('\n') and not text.endswith('\n\n') and text != '\n':
        res['str-newline'] = mistletoe.markdown(text[:-1], cls)
    full, last = split_lines(text)
    keep = [l + '\n' for l in full] + ([last] if last else [])
    bare = full + ([last] if last else [])
    res['lines-with-terminators'] = mistletoe.markdown(keep, cls)
    res['lines-bare'] = mistletoe.markdown(bare, cls)
    res['tuple-lines'] = mistletoe.markdown(tuple(keep), cls)
    res['iterator'] = mistletoe.markdown(iter(keep), cls)
    res['stringio'] = mistletoe.markdown(io.StringIO(text), cls)
    fd, path = tempfile.mkstemp(prefix='vf-c15-', suffix='.md')
    try:
        with os.fdopen(fd, 'w', encoding='utf-8', newline='') as f:
            f.write(text)
        with open(path, 'r', encoding='utf-8', newline='\n') as f:
            res['file-object'] = mistletoe.markdown(f, cls)
        old = sys.stdout
        sys.stdout = stub = _Stdout()
        try:
            cli.main([path] + (['-r', PATHS[name]] if name != 'Html' else []))
        finally:
            sys.stdout = old
        res['cli-in-process'] = stub.buffer.getvalue().decode('utf-8')
    finally:
        os.unlink(path)
    return res


class Forms(HypPart):
    name = 'forms'
    budget = {'quick': 5000, 'thorough': 250000}
    rule = ('texts from pools G0-G4 with \\n as the only line terminator x renderer; str, str +/- final newline, list/tuple/iterator of '
            'lines with and without terminators, StringIO, real file object and in-process CLI must give byte-identical output; '
            'non-trivial = (>= 2 blocks and a non-ASCII character) or no final newline; distinct = distinct (text, renderer)')
    required_labels = {'no-final-newline': 0.05, 'non-ascii': 0.03, 'option-matters': 0.002, 'longer-than-8KB': 0.002}

    def strategy(self, tier):
        return tapes(60, 600)

    def expand(self, drawn):
        t = Tape(drawn)
        while not t.exhausted():
            pool, text = pools.any_text(t, 300)
            if text.strip() and t.chance(2):
                # a long document: file layers read in chunks (8 KB text buffers, 64 KB pipes), strings and lists do not
                target = t.choice([8200, 8700, 8700, 17000, 17000, 66000])
                unit = text if text.endswith('\n') else text + '\n'
                unit += t.choice(['\n', '', '\n\n'])
                text = unit * (target // len(unit) + 1)
            if t.chance(40):
                text = text.rstrip('\n')
            if t.chance(6):
                # a text that happens to be the name of something that exists (relative to the working directory or absolute)
                text = t.choice(['DESIGN.md', 'MANIFEST.json', 'check', 'setup.sh', 'vf', '.', '..', '/', '/etc/hostname', 'properties.jsonl',
                                 sys.executable]) + t.choice(['', '', '\n'])
            yield {'text': text, 'renderer': t.choice(NAMES)}

    def check(self, case):
        text, name = case['text'], case['renderer']
        if not in_domain(text):
            return Out(skip='line separator other than \\n')
        from mistletoe import Document
        try:
            res = forms_outputs(text, name)
            with renderers.make(name) as r:
                doc = Document(text)
        except SystemExit as exc:
            return Out(Fail('cli', 'cli exited', text=text, renderer=name, error=repr(exc)), nt=True)
        except Exception as exc:
            return Out(skip='raised ' + exc_sig(exc))
        nt = nontrivial(text, doc)
        labels = ('renderer:' + name,)
        if text and not text.endswith('\n'):
            labels += ('no-final-newline',)
        if any(ord(c) > 127 for c in text):
            labels += ('non-ascii',)
        if len(text) > 8192:
            labels += ('longer-than-8KB',)
        base = res['str']
        for form, out in res.items():
            if out != base:
                return Out(Fail('same-output', '%s differs from str' % form, text=text, renderer=name, form=form,
                                expected=base, actual=out), nt=nt, labels=labels)
        if '|' in text:
            # the same text again under the other value of the documented parse option Table.interrupt_paragraph:
            # every form must follow the option (a result remembered for one form would not)
            from mistletoe import block_token
            saved = block_token.Table.interrupt_paragraph
            block_token.Table.interrupt_paragraph = not saved
            try:
                res2 = forms_outputs(text, name)
            except Exception as exc:
                return Out(Fail('same-output', 'raised under the other option value: ' + exc_sig(exc), text=text, renderer=name), nt=nt, labels=labels)
            finally:
                block_token.Table.interrupt_paragraph = saved
            labels += ('option-toggled',) + (('option-matters',) if res2['str'] != base else ())
            for form, out in res2.items():
                if out != res2['lines-with-terminators']:
                    return Out(Fail('same-output', '%s differs from the list form after Table.interrupt_paragraph was changed' % form, text=text,
                                    renderer=name, form=form, expected=res2['lines-with-terminators'], actual=out), nt=nt, labels=labels)
        return Out(nt=nt, labels=labels)


class CliSubprocess(HypPart):
    name = 'cli-subprocess'
    budget = {'quick': 480, 'thorough': 12000}
    rule = ('batches of 1..8 generated files passed to a real "python -m mistletoe f1 .. fn [-r path]" subprocess, a quarter of the '
            'command lines naming a file twice (same, relative or ./ spelling); stdout must be the '
            'concatenation, in argument order, of the in-process results; non-trivial as above for at least one file of the batch')

    required_labels = {'file-named-twice': 0.05}

    def strategy(self, tier):
        return tapes(200, 1500)

    def expand(self, drawn):
        t = Tape(drawn)
        texts = []
        for _ in range(1 + t.below(8)):
            pool, text = pools.any_text(t, 300)
            if t.chance(60):
                text = text.rstrip('\n')
            texts.append(text)
        # the command line: every file once, in order; sometimes a file is named again, under the same or another spelling
        argv = [[i, 0] for i in range(len(texts))]
        if t.chance(70):
            for _ in range(1 + t.below(2)):
                argv.insert(t.below(len(argv) + 1), [t.below(len(texts)), t.below(3)])
        yield {'texts': texts, 'renderer': t.choice(NAMES), 'argv': argv}

    def check(self, case):
        import mistletoe
        from mistletoe import Document
        texts, name = case['texts'], case['renderer']
        texts = [x for x in texts if in_domain(x)]
        if not texts:
            return Out(skip='line separator other than \\n')
        cls = renderers.renderer_class(name)
        argv = [(i, k) for i, k in (case.get('argv') or []) if isinstance(i, int) and 0 <= i < len(texts)] or [(i, 0) for i in range(len(texts))]
        try:
            expected = ''.join(mistletoe.markdown(texts[i], cls) for i, _ in argv)
            nt = False
            for x in texts:
                with renderers.make(name) as r:
                    nt = nt or nontrivial(x, Document(x))
        except Exception as exc:
            return Out(skip='raised ' + exc_sig(exc))
        labels = ('renderer:' + name, 'files:%d' % len(texts)) + (('file-named-twice',) if len(argv) > len(set(i for i, _ in argv)) else ())
        with tempfile.TemporaryDirectory(prefix='vf-c15-') as d:
            paths = []
            for i, x in enumerate(texts):
                p = os.path.join(d, 'f%d.md' % i)
                with open(p, 'w', encoding='utf-8', newline='') as f:
                    f.write(x)
                paths.append(p)
            spell = lambda i, k: paths[i] if k == 0 else os.path.basename(paths[i]) if k == 1 else './' + os.path.basename(paths[i])
            cmd = [sys.executable, '-m', 'mistletoe'] + [spell(i, k) for i, k in argv] + (['-r', PATHS[name]] if name != 'Html' else [])
            envv = dict(os.environ, PYTHONPATH=env.REPO, PYTHONHASHSEED='0', PYTHONDONTWRITEBYTECODE='1',
                        PYTHONIOENCODING='utf-8')
            try:
                proc = subprocess.run(cmd, stdout=subprocess.PIPE, stderr=subprocess.PIPE, env=envv, cwd=d, timeout=120)
            except subprocess.TimeoutExpired:
                return Out(skip='subprocess timed out (inconclusive)')
        if proc.returncode != 0:
            return Out(Fail('cli', 'exit status %d' % proc.returncode, texts=texts, renderer=name,
                            stderr=proc.stderr.decode('utf-8', 'replace')[-600:]), nt=nt, labels=labels)
        got = proc.stdout.decode('utf-8', 'replace')
        if got != expected:
            return Out(Fail('same-output', 'subprocess CLI differs', texts=texts, renderer=name, expected=expected, actual=got),
                       nt=nt, labels=labels)
        return Out(nt=nt, labels=labels)


class C15(Prop):
    id = 'C15'
    rule = Forms.rule
    assumptions = (
        'domain: texts without \\r \\v \\f \\x1c-\\x1e \\x85 U+2028 U+2029 (str.splitlines splits there, file iteration does not) and without NUL',
        'files are written and read as UTF-8 without newline translation',
    )

    def parts(self):
        return [Forms(), CliSubprocess()]


PROP = C15()
