"""C18 — HTML-based contrib renderers conservatively extend the HTML renderer."""
from .. import renderers
from ..core import Fail, HypPart, Out, Prop, exc_sig
from ..gen import pools
from ..gen.tape import Tape, tapes
from .c12 import walk

import re

# the side conditions are those of the statement: a '[[', a later '|' and a later ']]' (anywhere, even across lines: conservative);
# two '$' (one alone cannot delimit anything)
_WIKI = re.compile(r'\[\[.*?\|.*?\]\]', re.S)

CONTRIB = ['Toc', 'GithubWiki', 'MathJax', 'Pygments']


def html_opts(t):
    o = {}
    if t.chance(80):
        o['html_escape_double_quotes'] = True
    if t.chance(80):
        o['html_escape_single_quotes'] = True
    if t.chance(60):
        o['process_html_tokens'] = False
    return o


def check_case(case):
    text, name, opts = case['text'], case['renderer'], case.get('opts') or {}
    extra = case.get('extra') or {}
    if name == 'GithubWiki' and _WIKI.search(text):
        return Out(skip='uses [[..|..]] extension')
    if name == 'MathJax' and text.count('$') >= 2:
        return Out(skip='uses $..$ extension')
    try:
        base, doc = renderers.render('Html', opts, text)
        classes = {type(n).__name__ for n, _, _ in walk(doc)}
    except Exception as exc:
        return Out(skip='base renderer raised ' + exc_sig(exc))
    if name == 'Pygments' and (classes & {'CodeFence', 'BlockCode'}):
        return Out(skip='uses code block extension')
    nt = len(classes) >= 4   # Document + >= 3 token classes
    labels = ('renderer:' + name, 'opts:%d' % len(opts))
    try:
        got, _ = renderers.render(name, dict(opts, **extra), text)
    except Exception as exc:
        return Out(Fail('same-output', 'raised %s [%s]' % (exc_sig(exc), name), text=text, renderer=name, opts=opts,
                        error=repr(exc)[:300]), nt=nt, labels=labels)
    if name == 'MathJax':
        from mistletoe.contrib.mathjax import MathJaxRenderer
        src = MathJaxRenderer.mathjax_src
        if not got.endswith(src):
            return Out(Fail('mathjax-script-line', 'script line missing [MathJax]', text=text, opts=opts, actual=got[-300:]),
                       nt=nt, labels=labels)
        got = got[:-len(src)]
    if got != base:
        return Out(Fail('same-output', 'differs [%s]' % name, text=text, renderer=name, opts=opts, extra=extra,
                        expected=base, actual=got), nt=nt, labels=labels)
    return Out(nt=nt, labels=labels)


class Random(HypPart):
    name = 'random'
    budget = {'quick': 8000, 'thorough': 400000}
    rule = ('texts from pools G0-G4 meeting each contrib renderer\'s side condition x HtmlRenderer options passed through; '
            'non-trivial = the parse has >= 3 token classes besides Document; distinct = distinct (text, renderer, options)')
    required_labels = {'renderer:Pygments': 0.05, 'renderer:MathJax': 0.05, 'renderer:GithubWiki': 0.05, 'renderer:Toc': 0.05}

    def strategy(self, tier):
        return tapes(60, 700)

    def expand(self, drawn):
        t = Tape(drawn)
        while not t.exhausted():
            pool, text = pools.any_text(t, 300)
            opts = html_opts(t)
            for name in CONTRIB if t.chance(128) else [t.choice(CONTRIB)]:
                extra = {}
                if name == 'Toc' and t.chance(128):
                    extra = {'depth': 1 + t.below(6), 'omit_title': t.chance(128)}
                if name == 'Pygments' and t.chance(64):
                    extra = {'fail_on_unsupported_language': True}
                yield {'text': text, 'renderer': name, 'opts': opts, 'extra': extra}

    def check(self, case):
        return check_case(case)


class C18(Prop):
    id = 'C18'
    rule = Random.rule
    assumptions = (
        'side conditions are evaluated on the input text ([[ .. | .. ]] in this order anywhere in the text; two or more $) and on the HtmlRenderer parse (code blocks)',
        'inputs on which HtmlRenderer itself raises are skipped here (C01 reports them)',
    )

    def parts(self):
        return [Random()]


PROP = C18()
