"""C05 — blocks separated by a blank line are parsed independently of each other."""
import json

from .. import renderers
from ..core import Fail, HypPart, Out, Prop, exc_sig
from ..gen import pools
from ..gen.tape import Tape, tapes
from ..oracle import astdump

CLOSED = {'Paragraph', 'Heading', 'SetextHeading', 'ThematicBreak', 'Quote', 'Table'}


def parse_dump(text, tokens, with_lines=True):
    from mistletoe import Document
    if tokens == 'bare':
        doc = Document(text)
    else:
        with renderers.make(tokens) as r:
            doc = Document(text)
    return json.loads(json.dumps(astdump.dump(doc, with_lines=with_lines)))


def n_lines(text):
    return text.count('\n') if text.endswith('\n') else text.count('\n') + 1


def check_pair(case):
    a, b, tokens = case['a'], case['b'], case.get('tokens', 'Html')
    if '\t' in a or '\t' in b:
        pass    # tabs are allowed here (only C04 excludes them)
    try:
        da = parse_dump(a, tokens)
        db = parse_dump(b, tokens)
    except RecursionError:
        return Out(skip='nesting too deep')
    except Exception as exc:
        return Out(skip='raised ' + exc_sig(exc))
    if not da[2]:
        return Out(skip='A has no block')
    last = da[2][-1][0]
    if last not in CLOSED:
        return Out(skip='A ends in %s' % last)
    if da[1].get('footnotes') or db[1].get('footnotes'):
        return Out(skip='defines link references')
    first = db[2][0][0] if db[2] else 'none'
    a_full = a if a.endswith('\n') else a + '\n'
    text = a_full + '\n' + b
    shift = n_lines(a_full) + 1
    kinds_a = {k[0] for k in da[2]}
    kinds_b = {k[0] for k in db[2]}
    nt = bool(kinds_a - {'Paragraph'}) and bool(kinds_b - {'Paragraph'})
    labels = ('A-last:' + last, 'B-first:' + first, 'pair:%s>%s' % (last, first), 'tokens:' + tokens)
    try:
        dc = parse_dump(text, tokens)
    except Exception as exc:
        return Out(Fail('independent', 'combined parse raised ' + exc_sig(exc), a=a, b=b, tokens=tokens), nt=nt, labels=labels)
    want = da[2] + [astdump.shift_lines(k, shift) for k in db[2]]
    if dc[1].get('footnotes'):
        return Out(Fail('independent', 'combined document defines a link reference', a=a, b=b, tokens=tokens,
                        footnotes=dc[1]['footnotes']), nt=nt, labels=labels)
    if dc[2] != want:
        diff = astdump.first_difference(['Document', {}, dc[2]], ['Document', {}, want])
        structural = [strip_lines(k) for k in dc[2]] != [strip_lines(k) for k in want]
        return Out(Fail('independent' if structural else 'line-numbers', 'blocks differ' if structural else 'shifted line numbers differ',
                        a=a, b=b, tokens=tokens, difference=diff), nt=nt, labels=labels)
    return Out(nt=nt, labels=labels)


def strip_lines(d):
    name, attrs, kids = d
    attrs = {k: v for k, v in attrs.items() if k != 'line_number'}
    if '#header' in attrs:
        attrs['#header'] = strip_lines(attrs['#header'])
    return [name, attrs, None if kids is None else [strip_lines(k) for k in kids]]


class Pairs(HypPart):
    name = 'pairs'
    budget = {'quick': 9000, 'thorough': 500000}
    rule = ('pairs (A, B) of texts from pools G0-G4 parsed separately and as A + blank line + B under the default and the HtmlRenderer '
            'token sets; kept if A\'s last top-level block is a paragraph, heading, thematic break, block quote or table and neither '
            'text defines link references; non-trivial = both have a block other than Paragraph; distinct = distinct (A, B, token set)')

    def strategy(self, tier):
        return tapes(80, 700)

    def expand(self, drawn):
        t = Tape(drawn)
        while not t.exhausted():
            _, a = pools.any_text(t, 200)
            if t.chance(150):
                # make A end in a closed block more often
                a = a.rstrip('\n') + '\n\n' + t.choice(['para', '# h', 'Foo\n===', '***', '> q', '> - x\n> ```\n> c', '|a|b|\n|-|-|\n|c|d|',
                                                         '#', '> # h', '---', 'a\n    b', '> a\nlazy', '[x]', '> ```'])
            _, b = pools.any_text(t, 200)
            if t.chance(40):
                # B begins with a line that A also holds (A in a paragraph, B as the start of another construct):
                # whatever is remembered per line text within one document would cross over
                x, cont = t.choice([('a | b', '-|-\n1 | 2'), ('Foo', '==='), ('Foo', '---'), ('[r]: /u', '"t"'), ('x | y', ':-|-:'),
                                    ('- a', '  b'), ('> q', '> r'), ('<div>', 'c'), ('```', 'code\n```')])
                a = t.choice(['text\n' + x, 'p\n\ntext\n' + x + '\nmore', x]) + t.choice(['', '\n'])
                b = t.choice(['intro\n', 'intro\n', '']) + x + '\n' + cont + '\n'        # (also as a line that interrupts B's first paragraph)
            yield {'a': a, 'b': b, 'tokens': t.choice(['Html', 'bare', 'Html'])}

    def check(self, case):
        return check_pair(case)


class C05(Prop):
    id = 'C05'
    rule = Pairs.rule
    assumptions = (
        'side conditions are evaluated on the separate parses of A and B',
        'comparison is on an own dump of the token trees including every scalar attribute and line_number',
    )

    def parts(self):
        return [Pairs()]


PROP = C05()
