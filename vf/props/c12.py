"""C12 — the token tree is well-formed and its generic views are faithful."""
import collections
import json

from .. import renderers
from ..core import Fail, HypPart, Out, Prop, exc_sig
from ..gen import pools
from ..gen.tape import Tape, tapes

TOKEN_SETS = ['Html', 'Markdown', 'LaTeX', 'XWiki20']


def _kinds():
    from mistletoe import block_token as B, span_token as S
    return B, S


def walk(doc):
    """Own iterative walk over .children (Table.header handled separately).
    Returns [(node, parent, depth)] in BFS order, or raises ValueError on a cycle / runaway."""
    out = []
    seen = {id(doc)}
    queue = collections.deque([(doc, None, 0)])
    while queue:
        node, parent, depth = queue.popleft()
        out.append((node, parent, depth))
        if len(out) > 200000:
            raise ValueError('runaway tree')
        for ch in (node.children or ()):
            if id(ch) in seen:
                raise ValueError('token reachable twice: %r' % (ch,))
            seen.add(id(ch))
            queue.append((ch, node, depth + 1))
    return out


def shape_errors(doc, nodes):
    B, S = _kinds()
    errs = []
    span_parents = (B.Paragraph, B.Heading, B.SetextHeading, B.TableCell)
    raw_blocks = (B.BlockCode, B.CodeFence, B.HtmlBlock)
    for node, parent, depth in nodes:
        name = type(node).__name__
        if parent is not None and node.parent is not parent:
            errs.append(('parent-link', '%s under %s has parent %r' % (name, type(parent).__name__, node.parent)))
        kids = node.children
        if kids is not None and not isinstance(kids, (list, tuple)):
            errs.append(('children-type', '%s.children is %s' % (name, type(kids).__name__)))
            continue
        kids = kids or ()
        if isinstance(node, (B.Document, B.Quote, B.ListItem)):
            for k in kids:
                if not isinstance(k, B.BlockToken) or isinstance(k, (B.ListItem, B.TableRow, B.TableCell, B.Document)):
                    errs.append(('container-kind', '%s holds %s' % (name, type(k).__name__)))
        elif isinstance(node, B.List):
            if not kids:
                errs.append(('list-empty', 'List without items'))
            for k in kids:
                if type(k) is not B.ListItem:
                    errs.append(('list-kind', 'List holds %s' % type(k).__name__))
            if kids and type(kids[0]) is B.ListItem:
                leader = kids[0].leader
                if leader in ('-', '+', '*'):
                    if node.start is not None:
                        errs.append(('list-start', 'bullet list with start %r' % (node.start,)))
                else:
                    digits = leader[:-1]
                    if not (digits.isdigit() and leader[-1] in '.)'):
                        errs.append(('list-leader', 'ordered list leader %r' % leader))
                    elif node.start != int(digits) or isinstance(node.start, bool):
                        errs.append(('list-start', 'start %r but first marker %r' % (node.start, leader)))
            if not isinstance(node.loose, bool):
                errs.append(('list-loose', 'loose is %r' % (node.loose,)))
        elif isinstance(node, B.Table):
            for k in kids:
                if type(k) is not B.TableRow:
                    errs.append(('table-kind', 'Table holds %s' % type(k).__name__))
            hdr = getattr(node, 'header', None)
            if hdr is not None and type(hdr) is not B.TableRow:
                errs.append(('table-header', 'header is %s' % type(hdr).__name__))
        elif isinstance(node, B.TableRow):
            for k in kids:
                if type(k) is not B.TableCell:
                    errs.append(('row-kind', 'TableRow holds %s' % type(k).__name__))
        elif isinstance(node, span_parents):
            for k in kids:
                if not isinstance(k, S.SpanToken):
                    errs.append(('leaf-block-kind', '%s holds %s' % (name, type(k).__name__)))
        elif isinstance(node, raw_blocks):
            if len(kids) != 1 or type(kids[0]) is not S.RawText:
                errs.append(('code-html-kind', '%s holds %r' % (name, [type(k).__name__ for k in kids])))
        elif isinstance(node, S.SpanToken):
            for k in kids:
                if not isinstance(k, S.SpanToken):
                    errs.append(('span-holds-block', '%s holds %s' % (name, type(k).__name__)))
        if isinstance(node, (B.Heading, B.SetextHeading)):
            if not (isinstance(node.level, int) and 1 <= node.level <= 6):
                errs.append(('heading-level', '%s level %r' % (name, node.level)))
        if isinstance(node, B.BlockToken) and not isinstance(node, B.Document):
            ln = getattr(node, 'line_number', None)
            if not (isinstance(ln, int) and ln >= 1):
                errs.append(('line-number-type', '%s line_number %r' % (name, ln)))
    return errs


def header_nodes(doc_nodes):
    """Nodes reachable only through Table.header (not part of .children)."""
    B, S = _kinds()
    extra = []
    for node, parent, depth in doc_nodes:
        if isinstance(node, B.Table) and getattr(node, 'header', None) is not None:
            extra.extend(walk(node.header))
    return extra


def traverse_errors(doc, nodes):
    from mistletoe import utils as real_utils
    B, S = _kinds()
    errs = []
    cap = 4 * len(nodes) + 1000

    class _Bounded:
        """utils.traverse with a bound on what is consumed: a traversal that yields far more than the tree holds is
        reported, not followed to the end (it may be exponential or endless)"""
        @staticmethod
        def traverse(*a, **kw):
            n = 0
            for r in real_utils.traverse(*a, **kw):
                n += 1
                if n > cap:
                    raise _Runaway()
                yield r
    try:
        return _traverse_errors(doc, nodes, _Bounded, B, S, errs)
    except _Runaway:
        return errs + [('traverse', 'traversal yields more than %d results for a tree of %d tokens' % (cap, len(nodes)))]


class _Runaway(Exception):
    pass


def _traverse_errors(doc, nodes, utils, B, S, errs):
    own = collections.Counter((id(n), id(p) if p is not None else None, d) for n, p, d in nodes if p is not None)
    got = collections.Counter((id(r.node), id(r.parent) if r.parent is not None else None, r.depth) for r in utils.traverse(doc))
    if own != got:
        errs.append(('traverse', 'plain traversal yields %d results, own walk %d; missing %d, extra %d' % (
            sum(got.values()), sum(own.values()), sum((own - got).values()), sum((got - own).values()))))
    got_src = list(utils.traverse(doc, include_source=True))
    if not got_src or got_src[0].node is not doc or got_src[0].parent is not None or got_src[0].depth != 0:
        errs.append(('traverse-source', 'include_source does not yield the source first'))
    elif collections.Counter((id(r.node), id(r.parent) if r.parent is not None else None, r.depth) for r in got_src[1:]) != own:
        errs.append(('traverse-source', 'include_source changes the remaining results'))
    # single classes and tuples, also tuples that mix block and span classes
    for klass in (B.Paragraph, S.RawText, S.Link, (B.Heading, S.Emphasis), (B.Paragraph, S.RawText), (B.List, S.Link, S.Strong), (S.Emphasis, S.Strong)):
        want = collections.Counter((id(n), id(p), d) for n, p, d in nodes if p is not None and isinstance(n, klass))
        gotk = collections.Counter((id(r.node), id(r.parent), r.depth) for r in utils.traverse(doc, klass=klass))
        if want != gotk:
            errs.append(('traverse-klass', 'klass=%s: %d vs own %d' % (getattr(klass, '__name__', None) or '+'.join(k.__name__ for k in klass), sum(gotk.values()), sum(want.values()))))
    for limit in (1, 2, 3):
        want = collections.Counter((id(n), id(p), d) for n, p, d in nodes if p is not None and d <= limit)
        gotd = collections.Counter((id(r.node), id(r.parent), r.depth) for r in utils.traverse(doc, depth=limit))
        if want != gotd:
            errs.append(('traverse-depth', 'depth=%d: %d vs own %d' % (limit, sum(gotd.values()), sum(want.values()))))
    return errs


def _jsonable(v):
    return json.loads(json.dumps(v))


def ast_errors(doc):
    from mistletoe.ast_renderer import AstRenderer
    errs = []
    try:
        out = AstRenderer().render(doc)
        tree = json.loads(out)
    except Exception as exc:
        return [('ast-json', 'AstRenderer failed: %s' % exc_sig(exc))]
    stack = [(doc, tree)]
    n = 0
    while stack:
        tok, node = stack.pop()
        n += 1
        if not isinstance(node, dict) or node.get('type') != type(tok).__name__:
            errs.append(('ast-type', 'token %s exported as %r' % (type(tok).__name__, node.get('type') if isinstance(node, dict) else node)))
            continue
        if 'content' in vars(tok) and node.get('content') != tok.content:
            errs.append(('ast-content', '%s content differs' % type(tok).__name__))
        for attr in tok.repr_attributes:
            if attr not in node or node[attr] != _jsonable(getattr(tok, attr)):
                errs.append(('ast-attr', '%s.%s exported as %r, is %r' % (type(tok).__name__, attr, node.get(attr), getattr(tok, attr))))
        if tok.children is None:
            if 'children' in node:
                errs.append(('ast-children', 'leaf %s exported with children' % type(tok).__name__))
        else:
            kids = list(tok.children)
            if not isinstance(node.get('children'), list) or len(node['children']) != len(kids):
                errs.append(('ast-children', '%s has %d children, export has %r' % (
                    type(tok).__name__, len(kids), len(node['children']) if isinstance(node.get('children'), list) else None)))
            else:
                stack.extend(zip(kids, node['children']))
        hdr = vars(tok).get('header')
        if hdr is not None:
            if 'header' not in node:
                errs.append(('ast-header', 'table header not exported'))
            else:
                stack.append((hdr, node['header']))
    return errs


def check_text(text, tokens):
    from mistletoe import Document
    try:
        with renderers.make(tokens) as r:
            doc = Document(text)
            nodes = walk(doc)
            errs = shape_errors(doc, nodes)
            hn = header_nodes(nodes)
            errs += [(c, 'in table header: ' + d) for c, d in shape_errors(doc, [x for x in hn if x[1] is not None])]
            errs += traverse_errors(doc, nodes)
            errs += ast_errors(doc)
    except RecursionError:
        return Out(skip='nesting too deep')
    except ValueError as exc:
        return Out(Fail('finite-tree', 'cycle', text=text, tokens=tokens, error=str(exc)), nt=True)
    except Exception as exc:
        # totality is C01's business; here a raise only means there is no tree to inspect
        return Out(skip='parse raised ' + exc_sig(exc))
    depth = max(d for _, _, d in nodes)
    classes = {type(n).__name__ for n, _, _ in nodes}
    nt = depth >= 3 and len(classes) >= 4
    labels = ('tokens:' + tokens, 'depth:%d' % min(depth, 8)) + (('has-table',) if 'Table' in classes else ())
    if errs:
        clause, detail = errs[0]
        return Out(Fail(clause, clause, text=text, tokens=tokens, detail=detail, all=[list(e) for e in errs[:8]]), nt=nt, labels=labels)
    return Out(nt=nt, labels=labels)


class Random(HypPart):
    name = 'random'
    budget = {'quick': 9000, 'thorough': 500000}
    rule = ('texts from pools G0-G4 parsed under the token sets of the Html, Markdown, LaTeX and XWiki20 renderers; '
            'non-trivial = tree depth >= 3 and >= 4 distinct token classes; distinct = distinct (text, token set)')
    required_labels = {'has-table': 0.005, 'tokens:XWiki20': 0.1}

    def strategy(self, tier):
        return tapes(60, 700)

    def expand(self, drawn):
        t = Tape(drawn)
        while not t.exhausted():
            if t.chance(10):
                pool, text = 'G5-nested', pools.nested_pump(t, 75)       # trees far deeper than ordinary documents (token depth up to ~160)
            else:
                pool, text = pools.any_text(t, 300)
            for tokens in TOKEN_SETS if t.chance(40) else [t.choice(TOKEN_SETS)]:
                yield {'text': text, 'tokens': tokens, 'pool': pool}

    def check(self, case):
        out = check_text(case['text'], case['tokens'])
        if not out.skip:
            out.labels = tuple(out.labels) + ('pool:' + case.get('pool', '?'),)
        return out


class C12(Prop):
    id = 'C12'
    rule = Random.rule
    assumptions = (
        'the object graph is inspected by an own breadth-first walk over .children (and Table.header), independent of utils.traverse and get_ast',
        'Table.header is not listed in .children, so the parent-link clause is applied to the header row\'s cells, not to the header row itself',
    )

    def parts(self):
        return [Random()]


PROP = C12()
