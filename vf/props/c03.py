"""C03 — documents built from Markdown constructs parse to the tree they were built from."""
from .. import renderers
from ..core import EnumPart, Fail, HypPart, Out, Prop, exc_sig
from ..gen import docgen, dochtml, docwrite
from ..gen.tape import Tape, hex_tapes
from ..oracle.htmlnorm import normalize


def build(case, extra_opts=None):
    """case -> (doc model, markdown text, expected html, resolver)"""
    opts = dict(case.get('opts') or {})
    if extra_opts:
        opts.update(extra_opts)
    t = Tape(bytes.fromhex(case['tape']))
    doc = docgen.gen_document(t, opts)
    text, lines = docwrite.write(doc, t, opts)
    exp, res = dochtml.document_html(doc)
    return doc, text, exp, res


def model_labels(doc):
    kinds = set()
    inl = set()
    depth = [0]

    def winl(items):
        for it in items:
            if it.kind not in ('text', 'sp'):
                inl.add(it.kind)
            ch = it.a.get('children')
            if ch:
                winl(ch)

    def walk(children, d):
        depth[0] = max(depth[0], d)
        for b in children:
            kinds.add(b.kind)
            if b.kind in ('para', 'atx', 'setext'):
                winl(b.inl)
            elif b.kind == 'table':
                for c in b.header:
                    winl(c)
                for r in b.rows:
                    for c in r:
                        winl(c)
            elif b.kind == 'quote':
                walk(b.children, d + 1)
            elif b.kind == 'list':
                kinds.add('list-loose' if b.a.get('loose_eff') else 'list-tight')
                for it in b.items:
                    if not it.children:
                        kinds.add('empty-item')
                    if it.get('blank_first'):
                        kinds.add('item-blank-first')
                    walk(it.children, d + 1)
    walk(doc.children, 0)
    return kinds, inl, depth[0]


def first_diff(a, b):
    i = 0
    n = min(len(a), len(b))
    while i < n and a[i] == b[i]:
        i += 1
    return i, a[max(0, i - 50):i + 70], b[max(0, i - 50):i + 70]


def check_case(case, extra_opts=None):
    try:
        doc, text, exp, res = build(case, extra_opts)
    except (ValueError, KeyError, TypeError) as exc:
        return Out(skip='malformed case: %r' % (exc,))
    kinds, inl, depth = model_labels(doc)
    nt = len(kinds - {'list-loose', 'list-tight', 'empty-item', 'item-blank-first'}) >= 2 and (bool(kinds & {'quote', 'list'}) or bool(inl))
    labels = tuple('block:' + k for k in sorted(kinds)) + tuple('inline:' + k for k in sorted(inl)) + ('depth:%d' % depth,)
    if doc.a.get('lazy_used'):
        labels += ('lazy-lines',)
    try:
        got, _ = renderers.render('Html', {}, text)
    except Exception as exc:
        return Out(Fail('equivalent-html', 'raised ' + exc_sig(exc), markdown=text, error=repr(exc)), nt=nt, labels=labels)
    ng, ne = normalize(got), normalize(exp)
    if ng != ne:
        i, a, b = first_diff(ng, ne)
        return Out(Fail('equivalent-html', 'differs', markdown=text, actual_at=a, expected_at=b, actual=got, expected=exp),
                   nt=nt, labels=labels)
    return Out(nt=nt, labels=labels)


class Documents(HypPart):
    name = 'documents'
    budget = {'quick': 48000, 'thorough': 2000000}
    rule = ('choice tapes decoded into trees of CommonMark/GFM constructs (depth <= 4, <= 40 blocks) written out with free spelling '
            'choices; expected HTML is written directly from the tree; compared under the spec normaliser; non-trivial = >= 2 block '
            'kinds and (a container or an inline construct); distinct = distinct tape')
    required_labels = {'block:quote': 0.05, 'block:list-tight': 0.03, 'block:list-loose': 0.03, 'block:table': 0.02, 'block:fence': 0.03,
                       'block:htmlblock': 0.02, 'block:setext': 0.02, 'inline:link': 0.05, 'inline:code': 0.05, 'lazy-lines': 0.01,
                       'depth:3': 0.01}

    def strategy(self, tier):
        return hex_tapes(20, 500 if tier == 'quick' else 1500).map(lambda h: {'tape': h, 'opts': {}})

    def check(self, case):
        # a third of the documents also carry link reference definitions and reference links
        refs = int(case['tape'][:2] or '0', 16) % 3 == 0
        return check_case(case, {'exclude': self.excludes(), 'refs': refs})

    def describe(self, case):
        refs = int(case['tape'][:2] or '0', 16) % 3 == 0
        return build(case, {'exclude': self.excludes(), 'refs': refs})[1]

    def excludes(self):
        # writer switches that remove the input classes of open findings (see known_findings.json)
        return ['lazy_with_setext', 'lazy_after_indented', 'adjacent_lists', 'empty_last_item_then_sibling']


CURATED = [
    # hand-derived (markdown, expected HTML) pairs beyond the spec corpus; mostly regressions of repaired defects
    ("Foo  \nbar\n---\n", "<h2>Foo<br />\nbar</h2>\n"),
    ("a\\\\\nb\n", "<p>a\\\nb</p>\n"),
    ("a\\\\\\\nb\n", "<p>a\\<br />\nb</p>\n"),
    ("- a\n- | x |\n  |---|\n- c\n", "<ul>\n<li>a</li>\n<li>\n<table>\n<thead>\n<tr>\n<th align=\"left\">x</th>\n</tr>\n</thead>\n"
     "<tbody>\n</tbody>\n</table>\n</li>\n<li>c</li>\n</ul>\n"),
    ("<http://user@example.com/x>\n", "<p><a href=\"http://user@example.com/x\">http://user@example.com/x</a></p>\n"),
    ("<me@example.com>\n", "<p><a href=\"mailto:me@example.com\">me@example.com</a></p>\n"),
    ("Bar!\\\n[a](/u)\n", "<p>Bar!<br />\n<a href=\"/u\">a</a></p>\n"),
    ("x!\\*[a](/u)\n", "<p>x!*<a href=\"/u\">a</a></p>\n"),
    ("a\n\n    \n", "<p>a</p>\n"),
    ("a\n\n    \n    code\n", "<p>a</p>\n<pre><code>code\n</code></pre>\n"),
    ("> Foo\n> ---\n", "<blockquote>\n<h2>Foo</h2>\n</blockquote>\n"),
    ("> Foo\n> ===\n>\n> > bar\n> > ---\n", "<blockquote>\n<h1>Foo</h1>\n<blockquote>\n<h2>bar</h2>\n</blockquote>\n</blockquote>\n"),
    ("> foo\nbar\n===\n", "<blockquote>\n<p>foo\nbar\n===</p>\n</blockquote>\n"),
    (". foo\n\n) bar\n", "<p>. foo</p>\n<p>) bar</p>\n"),
    ("&ltx; &ampere; &amp;\n", "<p>&amp;ltx; &amp;ampere; &amp;</p>\n"),
    ("- \u00a0*\n", "<ul>\n<li>\u00a0*</li>\n</ul>\n"),
    ("**a****b*\n", "<p>**a***<em>b</em></p>\n"),
    ("*_**_*\n", "<p><em><em>**</em></em></p>\n"),
    ("![a](x\"y)\n", "<p><img src=\"x%22y\" alt=\"a\" /></p>\n"),
    ("| a |\n|---|\n| `x\\|y` |\n", "<table>\n<thead>\n<tr>\n<th align=\"left\">a</th>\n</tr>\n</thead>\n<tbody>\n<tr>\n"
     "<td align=\"left\"><code>x|y</code></td>\n</tr>\n</tbody>\n</table>\n"),
    ("1. a\n\n   b\n2. c\n", "<ol>\n<li>\n<p>a</p>\n<p>b</p>\n</li>\n<li>\n<p>c</p>\n</li>\n</ol>\n"),
    ("-\n  foo\n-\n\n  bar\n", "<ul>\n<li>foo</li>\n<li></li>\n</ul>\n<p>bar</p>\n"),
    ("~~~ a`b\nx\n~~~\n", "<pre><code class=\"language-a`b\">x\n</code></pre>\n"),
    ("[Foo bar]: /u\n\n[foo   BAR] [ẞ]\n\n[SS]: /s\n", "<p><a href=\"/u\">foo   BAR</a> <a href=\"/s\">ẞ</a></p>\n"),
]


class Curated(EnumPart):
    name = 'curated'
    no_shrink = True
    rule = 'hand-derived (markdown, expected HTML) pairs, mostly regressions of repaired defects and witnesses of recorded findings'

    def shards(self, tier):
        return 1

    def items(self, tier, k, n):
        for md, exp in CURATED:
            yield {'markdown': md, 'expected': exp}

    def check(self, case):
        md, exp = case['markdown'], case['expected']
        try:
            got, _ = renderers.render('Html', {}, md)
        except Exception as exc:
            return Out(Fail('equivalent-html', 'raised ' + exc_sig(exc), markdown=md, error=repr(exc)), nt=True)
        if normalize(got) != normalize(exp):
            return Out(Fail('equivalent-html', 'curated differs', markdown=md, actual=got, expected=exp), nt=True)
        return Out(nt=True)


# start condition 6 of HTML blocks: the block-level tag names of the specification (0.30, section 4.6), copied from its text
BLOCK_TAGS = ('address article aside base basefont blockquote body caption center col colgroup dd details dialog dir div dl dt '
              'fieldset figcaption figure footer form frame frameset h1 h2 h3 h4 h5 h6 head header hr html iframe legend li link main '
              'menu menuitem nav noframes ol optgroup option p param section source summary table tbody td tfoot th thead title tr '
              'track ul').split()
# other names: inline elements, custom elements, names added by later versions of the specification
NOT_BLOCK_TAGS = 'a b em i span img code kbd q s u search picture x-y my-tag blink abc h7 tablex divx'.split()


# --- code spans that run over line ends (a small model of its own, independent of the G4 generator) ----------------------

_CS_WORDS = ['foo', 'bar', 'a*b', '<b>', '&amp;', 'x', '\\', '[l](u)', '~~', 'é', 'a_b']
_CS_EDGES = ['', ' ', '\n', '  ', ' \n', '', ' ', '\n']
_CS_SEPS = [' ', ' ', '\n', '  ', ' \n']


def build_code_span(case):
    """-> (markdown, expected html, labels).  CommonMark 6.1: line endings in the content become spaces; then, if the content
    both begins and ends with a space and is not all spaces, one space is removed from each end.  (Continuation lines never
    begin with white space here, so the paragraph rule that strips it does not come into play.)"""
    import html
    from ..gen.tape import Tape
    t = Tape(bytes.fromhex(case['tape']))
    ticks = '`' * (1 + t.below(2))
    lead, trail = t.choice(_CS_EDGES), t.choice(_CS_EDGES)
    if trail.endswith(' ') and trail != ' ' and '\n' in trail:
        trail = '\n'
    content = t.choice(_CS_WORDS)
    for _ in range(t.below(4)):
        content += t.choice(_CS_SEPS) + t.choice(_CS_WORDS)
    raw = lead + content + trail
    before, after = t.choice(['see ', 'a', 'see ', '(']), t.choice([' here', '', '.', ' here'])
    para = before + ticks + raw + ticks + after
    code = raw.replace('\n', ' ')
    if code.startswith(' ') and code.endswith(' ') and code.strip(' ') != '':
        code = code[1:-1]
    inner = '%s<code>%s</code>%s' % (html.escape(before, quote=False), html.escape(code, quote=False), html.escape(after, quote=False))
    labels = set()
    if '\n' in lead or '\n' in trail:
        labels.add('line-end-at-edge')
    if '\n' in content:
        labels.add('line-end-inside')
    if raw.replace('\n', ' ') != code:
        labels.add('edge-spaces-stripped')
    lines = para.split('\n')
    cont = t.weighted([(3, 'none'), (2, 'quote'), (1, 'quote-lazy'), (2, 'list'), (1, 'list-lazy')])
    labels.add('container:' + cont)
    if cont == 'none':
        md, exp = lines, '<p>%s</p>\n' % inner
    elif cont.startswith('quote'):
        md = ['> ' + lines[0]] + [('> ' if cont == 'quote' else '') + x for x in lines[1:]]
        exp = '<blockquote>\n<p>%s</p>\n</blockquote>\n' % inner
    else:
        md = ['- ' + lines[0]] + [('  ' if cont == 'list' else '') + x for x in lines[1:]]
        exp = '<ul>\n<li>%s</li>\n</ul>\n' % inner
    return '\n'.join(md) + '\n', exp, tuple(sorted(labels))


class CodeSpanLines(HypPart):
    name = 'code-span-lines'
    budget = {'quick': 8000, 'thorough': 200000}
    rule = ('one paragraph (plain, quoted, in a list item; continuation lines marked or lazy) holding a code span of 1-5 words whose '
            'content begins / ends / is divided by spaces, double spaces and line endings in every combination; oracle: content with '
            'line endings turned into spaces first and one space stripped from each end afterwards (CommonMark 6.1), exact HTML; '
            'non-trivial = a line ending at an edge of the span or inside it; distinct = distinct tape')
    required_labels = {'line-end-at-edge': 0.2, 'line-end-inside': 0.2, 'edge-spaces-stripped': 0.1, 'container:quote-lazy': 0.03}

    def strategy(self, tier):
        return hex_tapes(8, 24).map(lambda h: {'tape': h})

    def describe(self, case):
        return build_code_span(case)[0]

    def check(self, case):
        md, exp, labels = build_code_span(case)
        nt = 'line-end-at-edge' in labels or 'line-end-inside' in labels
        try:
            got, _ = renderers.render('Html', {}, md)
        except Exception as exc:
            return Out(Fail('equivalent-html', 'raised ' + exc_sig(exc), markdown=md, error=repr(exc)), nt=nt, labels=labels)
        if got != exp:
            return Out(Fail('equivalent-html', 'code span over lines differs', markdown=md, actual=got, expected=exp), nt=nt, labels=labels)
        return Out(nt=nt, labels=labels)


class HtmlBlockTags(EnumPart):
    """'text' + newline + a line that begins with a tag.  A block-level name opens an HTML block that interrupts the
    paragraph (and takes the rest of the line with it); any other complete tag alone on its line may not interrupt a
    paragraph (start condition 7), an incomplete one is text: either way it stays inside the paragraph."""
    name = 'html-block-tags'
    rule = ('every block-level tag name of the specification and 20 other names x {<t>, </t>, <t/>, <t a="b">, <T>, <t> x, <t, <t\\na>, <t TAB a>} '
            'on the line after a paragraph line: HTML block for the former, paragraph continuation for the latter; '
            'non-trivial = all; distinct = (name, form)')
    FORMS = ['<%s>', '</%s>', '<%s/>', '<%s a="b">', '<%S>', '<%s> x *y*', '<%s', '<%s\na="b">', '<%s\ta>']

    def shards(self, tier):
        return 1

    def items(self, tier, k, n):
        for name in BLOCK_TAGS + NOT_BLOCK_TAGS:
            for form in self.FORMS:
                yield {'tag': name, 'form': form}

    def check(self, case):
        name, form = case['tag'], case['form']
        if name not in BLOCK_TAGS + NOT_BLOCK_TAGS or form not in self.FORMS:
            return Out(skip='malformed case')
        line = form.replace('%S', name.upper()).replace('%s', name)
        md = 'text\n' + line + '\n'
        if name in BLOCK_TAGS:
            exp = '<p>text</p>\n' + line + '\n'
        elif form == '<%s':
            exp = '<p>text\n&lt;%s</p>\n' % name
        else:
            # raw inline HTML inside the paragraph (emphasis after it is still read)
            exp = '<p>text\n' + line.replace('*y*', '<em>y</em>') + '</p>\n'
        labels = ('block-level' if name in BLOCK_TAGS else 'other',)
        try:
            got, _ = renderers.render('Html', {}, md)
        except Exception as exc:
            return Out(Fail('equivalent-html', 'raised ' + exc_sig(exc), markdown=md, error=repr(exc)), nt=True, labels=labels)
        if got != exp:
            return Out(Fail('equivalent-html', 'html block tag table', markdown=md, actual=got, expected=exp), nt=True, labels=labels)
        return Out(nt=True, labels=labels)


class C03(Prop):
    id = 'C03'
    rule = Documents.rule
    assumptions = (
        'the generator writes only spellings whose parse is unambiguous under the specification (vf/gen/docgen.py: need_blank and the '
        'inline soundness rules); the expected HTML comes from vf/gen/dochtml.py, which shares no code with mistletoe',
        'table cells always carry an align attribute (left when unspecified): this is the renderer\'s serialisation convention',
    )

    def parts(self):
        return [Documents(), CodeSpanLines(), Curated(), HtmlBlockTags()]


PROP = C03()
