"""C07 — link reference definitions: position-independent, first wins, case-folded."""
from .. import renderers
from ..core import EnumPart, Fail, HypPart, Out, Prop, exc_sig
from ..gen import dochtml
from ..gen.tape import hex_tapes
from ..oracle.htmlnorm import normalize
from . import c03


def uses_and_defs(doc):
    """-> (uses [(container path, label, line)], defs [(container path, spelled, line)])"""
    uses, defs = [], []

    def winl(items, path, line):
        for it in items:
            if it.kind == 'reflink' and it.rec is not None:
                uses.append((path, it.spelled, line))
            ch = it.a.get('children')
            if ch:
                winl(ch, path, line)

    def walk(children, path):
        for b in children:
            if b.kind in ('para', 'atx', 'setext'):
                winl(b.inl, path, b.a.get('line'))
            elif b.kind == 'table':
                for c in b.header:
                    winl(c, path, b.a.get('line'))
                for r in b.rows:
                    for c in r:
                        winl(c, path, b.a.get('line'))
            elif b.kind == 'defs':
                for rec, d in b.entries:
                    defs.append((path, d['spelled'], b.a.get('line')))
            elif b.kind == 'quote':
                walk(b.children, path + ('q%d' % id(b),))
            elif b.kind == 'list':
                for it in b.items:
                    walk(it.children, path + ('i%d' % id(it),))
    walk(doc.children, ())
    return uses, defs


def check_case(case, excludes):
    opts = {'refs': True, 'exclude': excludes}
    try:
        doc, text, exp, res = c03.build(case, opts)
    except (ValueError, KeyError, TypeError) as exc:
        return Out(skip='malformed case: %r' % (exc,))
    uses, defs = uses_and_defs(doc)
    nt = False
    by_label = {}
    for path, spelled, line in defs:
        by_label.setdefault(dochtml.normalize_label(spelled), []).append((path, line))
    labels = set()
    for path, spelled, line in uses:
        ds = by_label.get(dochtml.normalize_label(spelled), [])
        if not ds:
            continue
        win = min(ds, key=lambda x: x[1])
        if win[1] > (line or 0):
            nt = True
            labels.add('definition-after-use')
        if win[0] != path:
            nt = True
            labels.add('definition-in-other-container')
        if len(ds) >= 2:
            nt = True
            labels.add('duplicate-definitions')
    if any(path for path, _, _ in defs):
        labels.add('definition-inside-container')
    if not uses:
        labels.add('no-resolved-use')
    try:
        got, parsed = renderers.render('Html', {}, text)
    except Exception as exc:
        return Out(Fail('resolution', 'raised ' + exc_sig(exc), markdown=text, error=repr(exc)), nt=nt, labels=tuple(sorted(labels)))
    labels = tuple(sorted(labels))
    want_map = {k: [v[0], v[1]] for k, v in res.map.items()}
    got_map = {k: [v[0], v[1]] for k, v in parsed.footnotes.items()}
    if got_map != want_map:
        return Out(Fail('definitions', 'Document.footnotes differs', markdown=text, expected=want_map, actual=got_map), nt=nt, labels=labels)
    ng, ne = normalize(got), normalize(exp)
    if ng != ne:
        i, a, b = c03.first_diff(ng, ne)
        return Out(Fail('resolution', 'html differs', markdown=text, actual_at=a, expected_at=b, actual=got, expected=exp), nt=nt, labels=labels)
    return Out(nt=nt, labels=labels)


class Documents(HypPart):
    name = 'documents'
    budget = {'quick': 40000, 'thorough': 2000000}
    rule = ('G4 documents in reference mode: 1-5 labels, each with 1-3 definitions (re-spelled with case changes, inner whitespace runs, '
            'Unicode fold pairs) placed at drawn block boundaries of any container; uses in full / collapsed / shortcut form, links and '
            'images, in paragraphs, headings and table cells, plus undefined labels; oracle: HTML from the tree with a model resolver '
            '(first definition in document order, case-folded, whitespace-collapsed) and Document.footnotes == model map; non-trivial = '
            'winning definition after the use or in another container, or a label with >= 2 definitions; distinct = distinct tape')
    required_labels = {'definition-after-use': 0.1, 'definition-in-other-container': 0.1, 'duplicate-definitions': 0.1,
                       'definition-inside-container': 0.1}

    def strategy(self, tier):
        return hex_tapes(30, 500 if tier == 'quick' else 1500).map(lambda h: {'tape': h, 'opts': {}})

    def check(self, case):
        return check_case(case, c03.Documents().excludes() + self.excludes())

    def describe(self, case):
        return c03.build(case, {'refs': True, 'exclude': c03.Documents().excludes()})[1]

    def excludes(self):
        return []


# --- references followed by something that is not a link tail -----------------------------------------------------------
# (a small model of its own, independent of the G4 document generator)

_TAIL_LABELS = ['foo', 'Bar baz', 'x1', 'ẞ', 'a*b']
_INERT_TAILS = ['(not a link)', '(', '(a b', '(/u "t" x)', '(/u "t', "(/u 't' 't')", '(<b)', '(<a b c)', '(a(b)', '(/u(', ' (x)', ':', '.',
                ')', '(]', '( /u "t"x)', '(/u "t"")']
_LINK_TAILS = [('(/x)', '/x', None), ('(/x "T")', '/x', 'T'), ('(<a b>)', 'a%20b', None), ('()', '', None), ("( /y 'q' )", '/y', 'q')]


def _esc(text):
    import html
    return html.escape(text, quote=False)


def build_tails(case):
    """-> (markdown, expected html, labels).  Every use sits at the end of a paragraph of its own, so a tail never meets later text."""
    from ..gen.tape import Tape
    t = Tape(bytes.fromhex(case['tape']))
    nlab = 1 + t.below(3)
    names = [_TAIL_LABELS[(t.below(len(_TAIL_LABELS)) + i) % len(_TAIL_LABELS)] for i in range(nlab)]
    names = list(dict.fromkeys(names))
    defs = {}
    def_blocks = []
    labels_extra = set()
    for i, nm in enumerate(names):
        url, title = '/u%d' % i, (None if t.chance(128) else 'T%d' % i)
        spelled = t.choice([nm, nm.upper(), nm.lower(), '  ' + nm + ' '])
        quoted = t.chance(64)
        # a Unicode space is no white space to CommonMark: before the destination it is part of it, between the
        # destination and a title it is text after the destination, and then there is no definition at all
        uspace = t.choice(['\u00a0', '\u3000']) if t.chance(40) else ''
        if uspace and title is not None and t.chance(128) and not spelled.startswith(' '):
            line = '[%s]: %s %s"%s"' % (spelled, url, uspace, title)
            para = '<p>%s</p>\n' % _esc(line)
            def_blocks.append(('> ' + line if quoted else line, '<blockquote>\n%s</blockquote>\n' % para if quoted else para))
            labels_extra.add('unicode-space-no-definition')
            continue
        if uspace:
            url = uspace + url
            labels_extra.add('unicode-space-in-destination')
        defs[dochtml.normalize_label(nm)] = (url, title)
        line = '[%s]:%s%s' % (spelled, '' if uspace and t.chance(128) else ' ', url) + ('' if title is None else t.choice([' "%s"', " '%s'", ' (%s)']) % title)
        def_blocks.append(('> ' + line if quoted else line, '<blockquote>\n</blockquote>\n' if quoted else ''))
    uses, labels = [], labels_extra
    for _ in range(1 + t.below(4)):
        defined = not t.chance(50)
        nm = t.choice(names) if defined else t.choice(['nope', 'foo bar baz', 'u0'])
        defined = dochtml.normalize_label(nm) in defs
        spelled = t.choice([nm, nm.upper()]) if defined else nm
        image = t.chance(50)
        form = t.weighted([(4, 'shortcut'), (1, 'collapsed'), (1, 'full')])
        lead = t.choice(['', 'see ', 'a, '])
        text = 'txt' if form == 'full' else spelled
        src = ('!' if image else '') + {'shortcut': '[%s]' % spelled, 'collapsed': '[%s][]' % spelled, 'full': '[txt][%s]' % spelled}[form]
        shown = _esc(text).replace('*', '*')
        if t.chance(200) or form != 'shortcut' or '*' in nm:
            tail, is_link = t.choice(_INERT_TAILS), None
            labels.add('inert-tail')
        else:
            tail, href, ttl = t.choice(_LINK_TAILS)
            is_link = (href, ttl)
            labels.add('inline-link-tail')
        if is_link and form == 'shortcut':
            url, title = is_link
            tail_html = ''
        elif defined:
            url, title = defs[dochtml.normalize_label(nm)]
            tail_html = _esc(tail)
            labels.add('defined+' + form)
        else:
            url = None
            labels.add('undefined')
        if url is None:
            html_ = '<p>%s%s</p>\n' % (_esc(lead), _esc(src + tail))
        else:
            ttl = '' if title is None else ' title="%s"' % title
            url = url.replace('\u00a0', '%C2%A0').replace('\u3000', '%E3%80%80')
            el = ('<img src="%s" alt="%s"%s />' % (url, shown, ttl)) if image else ('<a href="%s"%s>%s</a>' % (url, ttl, shown))
            html_ = '<p>%s%s%s</p>\n' % (_esc(lead), el, tail_html)
        uses.append((lead + src + tail, html_))
    blocks = list(uses)
    for d in def_blocks:
        blocks.insert(t.below(len(blocks) + 1), d)
    md = '\n\n'.join(b[0] for b in blocks) + '\n'
    return md, ''.join(b[1] for b in blocks), tuple(sorted(labels))


class Tails(HypPart):
    name = 'reference-tails'
    budget = {'quick': 12000, 'thorough': 300000}
    rule = ('paragraphs ending in a shortcut / collapsed / full reference (link or image, defined or undefined label, re-spelled) that is '
            'directly followed by text which is not an inline-link tail ("(not a link)", unclosed or over-full parentheses, broken '
            'destinations and titles, punctuation) or, for shortcut references, by a valid inline-link tail (which wins); definitions '
            'before, between or after the uses, some inside a block quote; oracle: HTML written from this small model; non-trivial = '
            'a defined label followed by an inert tail; distinct = distinct tape')
    required_labels = {'inert-tail': 0.3, 'inline-link-tail': 0.05, 'defined+shortcut': 0.2, 'undefined': 0.05}

    def strategy(self, tier):
        return hex_tapes(12, 60).map(lambda h: {'tape': h})

    def describe(self, case):
        return build_tails(case)[0]

    def check(self, case):
        md, exp, labels = build_tails(case)
        nt = any(l.startswith('defined+') for l in labels) and 'inert-tail' in labels
        try:
            got, _ = renderers.render('Html', {}, md)
        except Exception as exc:
            return Out(Fail('resolution', 'raised ' + exc_sig(exc), markdown=md, error=repr(exc)), nt=nt, labels=labels)
        if normalize(got) != normalize(exp):
            return Out(Fail('resolution', 'reference followed by a non-tail: html differs', markdown=md, actual=got, expected=exp), nt=nt, labels=labels)
        return Out(nt=nt, labels=labels)


CURATED = [
    ("[foo]: /first\n\n> [FOO]: /second\n\n[Foo] [foo][] [x][fOo] ![foo]\n",
     "<blockquote>\n</blockquote>\n<p><a href=\"/first\">Foo</a> <a href=\"/first\">foo</a> <a href=\"/first\">x</a> <img src=\"/first\" alt=\"foo\" /></p>\n"),
    ("[foo]\n\n> - [foo]: /in-list 'T'\n", "<p><a href=\"/in-list\" title=\"T\">foo</a></p>\n<blockquote>\n<ul>\n<li></li>\n</ul>\n</blockquote>\n"),
    ("# [bar]\n\n| [bar] |\n|---|\n\n[BAR   ]: <a b> (t)\n[bar]: /later\n",
     "<h1><a href=\"a%20b\" title=\"t\">bar</a></h1>\n<table>\n<thead>\n<tr>\n<th align=\"left\"><a href=\"a%20b\" title=\"t\">bar</a></th>\n</tr>\n</thead>\n<tbody>\n</tbody>\n</table>\n"),
    ("[ẞ] [ss] [nope] [nope][]\n\n[SS]: /s\n", "<p><a href=\"/s\">ẞ</a> <a href=\"/s\">ss</a> [nope] [nope][]</p>\n"),
    ("[a   b]: /u\n\n[A\nB]\n", "<p><a href=\"/u\">A\nB</a></p>\n"),
    # angle-bracket destinations in definitions: escaped brackets, spaces, an empty one
    ("[foo]: <a\\>b> \"t\"\n[bar]: <c\\<d>\n[baz]: <>\n\n[foo] [bar] [baz]\n",
     "<p><a href=\"a%3Eb\" title=\"t\">foo</a> <a href=\"c%3Cd\">bar</a> <a href=\"\">baz</a></p>\n"),
]


class Curated(EnumPart):
    name = 'curated'
    no_shrink = True
    rule = 'hand-derived documents exercising position independence, first-wins and folding'

    def shards(self, tier):
        return 1

    def items(self, tier, k, n):
        for md, exp in CURATED:
            yield {'markdown': md, 'expected': exp}

    def check(self, case):
        return c03.Curated().check(case)


class C07(Prop):
    id = 'C07'
    rule = Documents.rule
    assumptions = (
        'label matching in the model is casefold + whitespace collapse (spec 6.3); fold pairs (ẞ/ss, Σ/σ/ς, K/k) are additionally asserted from a '
        'hard-coded table at start-up so that the oracle does not rest on str.casefold alone',
        'definitions are placed in loose contexts only (document, block quotes, loose list items)',
    )

    def selfcheck(self):
        return 'fold pairs checked: %d' % dochtml.fold_selfcheck()

    def parts(self):
        return [Documents(), Tails(), Curated()]


PROP = C07()
