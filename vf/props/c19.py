"""C19 — the table of contents lists exactly the qualifying headings, in order."""
from .. import renderers
from ..core import EnumPart, Fail, HypPart, Out, Prop, exc_sig
from ..gen import dochtml
from ..gen.tape import Tape, hex_tapes
from . import c03


DEFAULT_EXCLUDES = ('empty_sub_heading',)


def make_filter(desc):
    kind, arg = desc
    if kind == 'contains':
        return lambda s: arg in s
    if kind == 'startswith':
        return lambda s: s.startswith(arg)
    if kind == 'parity':
        return lambda s: len(s) % 2 == arg
    raise KeyError(kind)


def toc_plain(items):
    """the heading's plain text: as dochtml.plain, but raw HTML contributes nothing"""
    return ''.join('' if it.kind == 'html' else dochtml.plain([it]) for it in items)


def model_headings(doc):
    out = []
    for path, kind, node in dochtml.flat_blocks(doc):
        if kind in ('atx', 'setext'):
            out.append((node.level, toc_plain(node.inl)))
    return out


def _entry_text(c):
    """literal text of one inline token of an entry; anything that is markup shows up as <Type> and so never equals a title"""
    name = type(c).__name__
    if name == 'RawText':
        return c.content
    if name == 'EscapeSequence':
        return ''.join(_entry_text(k) for k in c.children)
    if name == 'LineBreak':
        return '\n'
    return '<%s>' % name


def walk_toc(lst, depth, out, errs):
    if type(lst).__name__ != 'List':
        errs.append('expected a List at depth %d, got %s' % (depth, type(lst).__name__))
        return
    for item in lst.children:
        kids = list(item.children)
        if kids and type(kids[0]).__name__ == 'Paragraph':
            text = ''.join(_entry_text(c) for c in kids[0].children)
            rest = kids[1:]
        elif not kids or type(kids[0]).__name__ == 'List':
            text, rest = '', kids           # the entry of a heading without text
        else:
            errs.append('entry at depth %d does not start with a paragraph: %r' % (depth, [type(k).__name__ for k in kids]))
            continue
        out.append((depth, text))
        for k in rest:
            if type(k).__name__ == 'List':
                walk_toc(k, depth + 1, out, errs)
            else:
                errs.append('unexpected %s inside an entry' % type(k).__name__)


def check_case(case):
    toc_opts = case.get('toc') or {}
    depth = int(toc_opts.get('depth', 5))
    omit = bool(toc_opts.get('omit_title', True))
    filt = [tuple(f) for f in toc_opts.get('filters', [])]
    if not 1 <= depth <= 6:
        return Out(skip='malformed case')
    opts = {'outline': True, 'outline_rich': True, 'outline_top': int(case.get('top', 1)), 'top_blocks': 10, 'exclude': c03.Documents().excludes()}
    if not 1 <= opts['outline_top'] <= 4:
        return Out(skip='malformed case')
    try:
        doc, text, exp, res = c03.build(case, opts)
        conds = [make_filter(f) for f in filt]
    except (ValueError, KeyError, TypeError) as exc:
        return Out(skip='malformed case: %r' % (exc,))
    heads = model_headings(doc)
    qual = [(lv, tx) for lv, tx in heads if lv <= depth and not (omit and lv == 1) and not any(c(tx) for c in conds)]
    if not qual:
        return Out(skip='no qualifying heading')
    base = min(lv for lv, _ in qual)
    if qual[0][0] != base or any(b[0] - a[0] > 1 for a, b in zip(qual, qual[1:])):
        return Out(skip='qualifying headings do not form an outline')
    want = [(lv - base, tx) for lv, tx in qual]
    if any(d > 0 and tx.strip() == '' for d, tx in want) and 'empty_sub_heading' in (case.get('exclude') or DEFAULT_EXCLUDES):
        return Out(skip='empty sub-heading (recorded finding F59)')
    nt = len(qual) >= 3 and len({lv for lv, _ in qual}) >= 2 and len(qual) < len(heads)
    labels = ('depth:%d' % depth, 'omit_title:%s' % omit, 'filters:%d' % len(filt), 'base:%d' % base)
    if len(qual) < len(heads):
        labels += ('some-filtered-out',)
    from mistletoe import Document
    try:
        with renderers.make('Toc', {'depth': depth, 'omit_title': omit, 'filter_conds': conds}) as r:
            nib = int(case.get('tape', '0')[:1] or '0', 16)
            if nib % 2:
                # the renderer has been used before (another document with 1-4 headings, its table read): the table is that of the last document
                r.render(Document(OTHER_DOCS[(nib // 2) % len(OTHER_DOCS)]))
                if nib % 4 == 1:
                    try:
                        r.toc
                    except IndexError:
                        pass            # (that document had no qualifying heading: no representable table, see the assumptions)
            r.render(Document(text))
            toc = r.toc
            got = []
            errs = []
            walk_toc(toc, 0, got, errs)
    except Exception as exc:
        return Out(Fail('toc', 'raised ' + exc_sig(exc), markdown=text, toc=toc_opts, error=repr(exc)), nt=nt, labels=labels)
    if errs:
        return Out(Fail('toc', 'malformed', markdown=text, toc=toc_opts, errors=errs[:4], expected=want), nt=nt, labels=labels)
    if got != want:
        return Out(Fail('toc', 'entries differ', markdown=text, toc=toc_opts, expected=want, actual=got), nt=nt, labels=labels)
    return Out(nt=nt, labels=labels)


OTHER_DOC = '# Earlier title\n\n## Earlier section\n\ntext\n\n### Earlier sub\n'
OTHER_DOCS = [OTHER_DOC, '## One\n', '## One\n\n## Two\n', '# T\n\n## One\n\n### Two\n\n## Three\n']
FILTER_WORDS = ['alpha', 'Intro', 'x', 'Part', 'API', 'notes']


class Documents(HypPart):
    name = 'documents'
    budget = {'quick': 30000, 'thorough': 1500000}
    rule = ('G4 documents whose headings (ATX and setext, at top level and inside quotes / list items) form an outline with plain-word '
            'titles optionally wrapped in emphasis, strong, code or link markup; x depth 1-6 x omit_title x up to 2 filter predicates '
            '(contains / startswith / length parity) x shallowest level 1-3 x renderer fresh or used for another document before; expected entries computed from the model; non-trivial = '
            '>= 3 qualifying headings on >= 2 levels with >= 1 filtered out; distinct = distinct (tape, options)')
    required_labels = {'some-filtered-out': 0.1, 'omit_title:False': 0.2, 'base:2': 0.1}

    def strategy(self, tier):
        return hex_tapes(40, 500 if tier == 'quick' else 1500).map(self.to_case)

    @staticmethod
    def to_case(h):
        b = bytes.fromhex(h)
        t = Tape(b[-8:])
        filters = []
        for _ in range(t.weighted([(3, 0), (2, 1), (1, 2)])):
            k = t.choice(['contains', 'startswith', 'parity'])
            filters.append([k, t.below(2) if k == 'parity' else t.choice(FILTER_WORDS)])
        return {'tape': b[:-8].hex(), 'opts': {}, 'top': t.weighted([(3, 1), (3, 2), (1, 3)]),
                'toc': {'depth': t.weighted([(2, 5), (1, 1), (2, 2), (2, 3), (1, 4), (1, 6)]), 'omit_title': not t.chance(110), 'filters': filters}}

    def describe(self, case):
        opts = {'outline': True, 'outline_rich': True, 'outline_top': int(case.get('top', 1)), 'top_blocks': 10, 'exclude': c03.Documents().excludes()}
        return 'toc options %r\n%s' % (case.get('toc'), c03.build(case, opts)[1])

    def check(self, case):
        return check_case(case)


CURATED = [
    ("## a\n\n### b\n\n## c\n", {'depth': 5, 'omit_title': False, 'filters': []}, [[0, 'a'], [1, 'b'], [0, 'c']]),
    ("# T\n\n### deep\n\n### more\n", {'depth': 5, 'omit_title': True, 'filters': []}, [[0, 'deep'], [0, 'more']]),
    ("# T\n\n## *a* `b`\n\n> ## in quote\n\n- ### in item\n\nlast\n----\n", {'depth': 3, 'omit_title': True, 'filters': []},
     [[0, 'a b'], [0, 'in quote'], [1, 'in item'], [0, 'last']]),
    ("# T\n\n## keep\n\n## drop me\n\n### x\n", {'depth': 2, 'omit_title': False, 'filters': [['contains', 'drop']]},
     [[0, 'T'], [1, 'keep']]),
    ("# \\*a\\*\n\n## 1. x\n\n## &#35; y\n\n## AT&T `<b>` \\&amp;\n", {'depth': 5, 'omit_title': False, 'filters': []},
     [[0, '*a*'], [1, '1. x'], [1, '# y'], [1, 'AT&T <b> &amp;']]),
    ("## - a\n\n## > b `c`\n\n## [d](e) \\[f\\]\n", {'depth': 5, 'omit_title': True, 'filters': [['startswith', '>']]},
     [[0, '- a'], [0, 'd [f]']]),
]


class Curated(EnumPart):
    name = 'curated'
    no_shrink = True
    rule = 'hand-written documents and options with hand-derived outlines'

    def shards(self, tier):
        return 1

    def items(self, tier, k, n):
        for md, toc, exp in CURATED:
            yield {'markdown': md, 'toc': toc, 'expected': exp}

    def check(self, case):
        from mistletoe import Document
        o = case['toc']
        try:
            with renderers.make('Toc', {'depth': o['depth'], 'omit_title': o['omit_title'],
                                        'filter_conds': [make_filter(tuple(f)) for f in o['filters']]}) as r:
                r.render(Document(case['markdown']))
                got, errs = [], []
                walk_toc(r.toc, 0, got, errs)
        except Exception as exc:
            return Out(Fail('toc', 'raised ' + exc_sig(exc), markdown=case['markdown'], toc=o, error=repr(exc)), nt=True)
        got = [list(x) for x in got]
        if errs or got != case['expected']:
            return Out(Fail('toc', 'curated', markdown=case['markdown'], toc=o, errors=errs, expected=case['expected'], actual=got), nt=True)
        return Out(nt=True)


class C19(Prop):
    id = 'C19'
    rule = Documents.rule
    assumptions = (
        'cases without a qualifying heading, or whose qualifying headings do not themselves form an outline (first one shallowest, never '
        'deepening by more than one), are skipped and counted: the API has no representable result for them',
        'titles are words, punctuation, HTML-significant characters, character references, backslash escapes and code spans; images, raw HTML and '
        'line breaks in titles, raw HTML at a title\'s edge, and Unicode spaces at a title\'s edge (the block parser strips them like ASCII spaces; DESIGN.md section 9), are not generated',
    )

    def parts(self):
        return [Documents(), Curated()]


PROP = C19()
