"""Runner shared by all checks: sharded parts, accumulators, known findings,
shrinking, replay files and evidence.

Vocabulary
  case     a JSON-serialisable value that fully determines one evaluation
  part     a named sub-check of a property: a generator/enumerator plus an oracle
  Out      what the oracle returns for one case
  Fail     an oracle failure: clause (which sentence of the property), sig (coarse
           root-cause signature used for bucketing), detail (free-form dict)
"""
import collections
import concurrent.futures
import hashlib
import json
import multiprocessing
import os
import sys
import time
import traceback

from . import env

# (the two overrides exist so that sensitivity runs against mutated copies of the tree do not touch the committed evidence)
REPLAY_DIR = os.environ.get('VERIF_REPLAY_DIR') or os.path.join(env.VERIF_DIR, 'replays')
EVIDENCE_DIR = os.environ.get('VERIF_EVIDENCE_DIR') or os.path.join(env.VERIF_DIR, 'evidence')
KNOWN_FILE = os.path.join(env.VERIF_DIR, 'known_findings.json')


class Fail:
    __slots__ = ('clause', 'sig', 'detail')

    def __init__(self, clause, sig, **detail):
        self.clause = clause
        self.sig = '%s:%s' % (clause, sig)
        self.detail = detail

    def to_json(self):
        return {'clause': self.clause, 'sig': self.sig, 'detail': _clip(self.detail)}


class Out:
    __slots__ = ('fail', 'nt', 'labels', 'skip')

    def __init__(self, fail=None, nt=False, labels=(), skip=None):
        self.fail = fail
        self.nt = nt
        self.labels = labels
        self.skip = skip


OK = Out()


def _clip(v, n=600):
    if isinstance(v, str):
        return v if len(v) <= n else v[:n] + '...[+%d]' % (len(v) - n)
    if isinstance(v, dict):
        return {str(k): _clip(x, n) for k, x in v.items()}
    if isinstance(v, (list, tuple)):
        return [_clip(x, n) for x in v[:40]]
    if isinstance(v, (int, float, bool)) or v is None:
        return v
    return _clip(repr(v), n)


def case_hash(case):
    b = json.dumps(case, sort_keys=True, ensure_ascii=True, default=repr).encode()
    return int.from_bytes(hashlib.blake2b(b, digest_size=8).digest(), 'big')


def case_size(case):
    return len(json.dumps(case, default=repr))


def exc_sig(exc):
    """Exception type + innermost frame inside the tree under test."""
    tb = traceback.extract_tb(exc.__traceback__)
    where = '?'
    for fr in reversed(tb):
        fn = fr.filename.replace('\\', '/')
        if '/mistletoe/' in fn and '/vf/' not in fn:
            where = '%s:%s' % (fn.split('/mistletoe/', 1)[1], fr.name)
            break
    return '%s@%s' % (type(exc).__name__, where)


class Acc:
    """Per-worker accumulator; export() is merged by the parent."""

    def __init__(self, open_classes=()):
        self.evaluations = 0
        self.nt = set()
        self.nt_count = 0
        self.labels = collections.Counter()
        self.skips = collections.Counter()
        self.known = collections.Counter()
        self.known_samples = {}
        self.failures = {}
        self.samples = []
        self.extra = collections.Counter()
        self.open_classes = set(open_classes)
        self._minmax = [None, None]

    def observe(self, part, case, out):
        self.evaluations += 1
        if out.skip:
            self.skips[out.skip] += 1
            return
        for lab in out.labels:
            self.labels[lab] += 1
        if out.nt:
            if getattr(part, 'distinct_by_construction', False):
                # enumerations yield each case once: count, do not hash (keeps tens of millions of cases cheap)
                self.nt_count += 1
                fresh = self.nt_count <= 4 or self.nt_count % 4096 == 0
            else:
                h = case_hash(case)
                fresh = h not in self.nt
                if fresh:
                    self.nt.add(h)
            if fresh:
                sz = case_size(case)
                if len(self.samples) < 4:
                    self.samples.append(case)
                mn, mx = self._minmax
                if mn is None or sz < mn[0]:
                    self._minmax[0] = (sz, case)
                if mx is None or sz > mx[0]:
                    self._minmax[1] = (sz, case)
        if out.fail is not None:
            cls = part.known_class(case, out.fail)
            if cls is not None and cls in self.open_classes:
                self.known[cls] += 1
                self.known_samples.setdefault(cls, case)
                return
            sig = out.fail.sig
            prev = self.failures.get(sig)
            if prev is None or case_size(case) < case_size(prev[0]):
                n = prev[2] if prev else 0
                self.failures[sig] = [case, out.fail.to_json(), n]
            self.failures[sig][2] += 1

    def export(self):
        samples = list(self.samples)
        for mm in self._minmax:
            if mm is not None and mm[1] not in samples:
                samples.append(mm[1])
        return {
            'evaluations': self.evaluations,
            'nt': list(self.nt),
            'nt_count': self.nt_count,
            'labels': dict(self.labels),
            'skips': dict(self.skips),
            'known': dict(self.known),
            'known_samples': self.known_samples,
            'failures': self.failures,
            'samples': samples,
            'extra': dict(self.extra),
        }


class Part:
    """Base class. Subclasses implement run(tier, k, n, seed, acc) and check(case)."""
    name = 'part'
    exhaustive = False
    rule = ''
    required_labels = {}

    def shards(self, tier):
        return env.nproc()

    def check(self, case):
        raise NotImplementedError

    def known_class(self, case, fail):
        return None

    def run(self, tier, k, n, seed, acc):
        raise NotImplementedError

    def shrink_ok(self, case):
        """Domain guard used while shrinking (cases outside the domain are rejected)."""
        return True


class HypPart(Part):
    """Cases drawn by Hypothesis from self.strategy(tier); oracle never raises into
    Hypothesis (collect, then shrink with vf.shrink)."""
    budget = {'quick': 2000, 'thorough': 50000}

    def strategy(self, tier):
        raise NotImplementedError

    def expand(self, drawn):
        """One drawn value may be decoded into several plain-data cases (amortises
        Hypothesis' per-example overhead for cheap oracles)."""
        return (drawn,)

    def run(self, tier, k, n, seed, acc):
        import hypothesis
        from hypothesis import HealthCheck, Phase, given, settings
        total = self.budget[tier]
        mine = total // n + (1 if k < total % n else 0)
        if mine <= 0:
            return
        part = self
        # Hypothesis' GC timing callback raises (harmlessly, but noisily) when the code under
        # test has exhausted the recursion limit; it is not needed here
        import gc
        gc.callbacks[:] = [cb for cb in gc.callbacks if 'gc_cumulative_time' not in getattr(cb, '__qualname__', '')]

        @hypothesis.seed(seed * 64 + k + (case_hash(self.name) % 1000) * 4096)
        @settings(max_examples=mine, database=None, deadline=None, derandomize=False,
                  phases=[Phase.generate], report_multiple_bugs=False,
                  suppress_health_check=list(HealthCheck))
        @given(self.strategy(tier))
        def body(drawn):
            for case in part.expand(drawn):
                acc.observe(part, case, part.check(case))

        body()


class EnumPart(Part):
    """Finite domain enumerated completely: items(tier, k, n) yields shard k of n (each case exactly once)."""
    exhaustive = True
    distinct_by_construction = True

    def items(self, tier, k, n):
        raise NotImplementedError

    def run(self, tier, k, n, seed, acc):
        for case in self.items(tier, k, n):
            acc.observe(self, case, self.check(case))


class Prop:
    id = 'C00'
    rule = ''
    assumptions = ()

    def parts(self):
        raise NotImplementedError

    def part(self, name):
        for p in self.parts():
            if p.name == name:
                return p
        raise KeyError(name)


# ---------------------------------------------------------------- known findings

class Known:
    def __init__(self, prop_id):
        self.all = []
        if os.path.exists(KNOWN_FILE):
            with open(KNOWN_FILE) as f:
                data = json.load(f)
            self.all = [e for e in data.get('findings', []) if e.get('property') == prop_id]
        self.open = [e for e in self.all if e.get('status') == 'open']
        self.fixed = [e for e in self.all if e.get('status') == 'fixed']

    def open_classes(self):
        out = {e['class'] for e in self.open if e.get('class')}
        for e in self.open:
            out.update(e.get('classes') or ())
        return sorted(out)


# ---------------------------------------------------------------- worker side

_PROPS = {}


def load_prop(prop_id):
    if prop_id not in _PROPS:
        import importlib
        mod = importlib.import_module('vf.props.%s' % prop_id.lower())
        _PROPS[prop_id] = mod.PROP
    return _PROPS[prop_id]


_SNAP = None


def _class_state(mods):
    out = {}
    for mod in mods:
        for obj in list(vars(mod).values()):
            if isinstance(obj, type) and obj.__module__ == mod.__name__:
                for k, v in list(vars(obj).items()):
                    if k.startswith('__') or callable(v) or isinstance(v, (classmethod, staticmethod, property)):
                        continue
                    out[(obj, k)] = v
    return out


def snapshot_library_state():
    """Remember the import-time value of every piece of process-global parser state.  Must be called
    before the first parse in the process (run_check / replay_file do so; forked workers inherit it)."""
    global _SNAP
    if _SNAP is None:
        import html
        from mistletoe import block_token, span_token
        _SNAP = (_class_state((block_token, span_token)), html._charref)


def reset_library_state():
    """Bring the library's process-global parser state back to import-time defaults, so that every
    case starts from the same state and a failure reproduces from its saved input alone."""
    import html
    from mistletoe import block_token, span_token, core_tokens, token
    snapshot_library_state()
    snap, charref = _SNAP
    for (cls, k), v in snap.items():
        if vars(cls).get(k, snap) is not v:
            setattr(cls, k, v)
    for (cls, k) in _class_state((block_token, span_token)):
        if (cls, k) not in snap:
            delattr(cls, k)
    block_token.reset_tokens()
    span_token.reset_tokens()
    # (internals: tolerated to be absent after a refactoring)
    if hasattr(core_tokens, '_code_matches'):
        core_tokens._code_matches = []
    if hasattr(token, '_root_node'):
        token._root_node = None
    html._charref = charref


def _worker(task):
    prop_id, part_name, k, n, seed, tier, open_classes = task
    try:
        prop = load_prop(prop_id)
        part = prop.part(part_name)
        reset_library_state()
        acc = Acc(open_classes)
        t0 = time.time()
        part.run(tier, k, n, seed, acc)
        res = acc.export()
        res['wall'] = time.time() - t0
        return (part_name, k, res, None)
    except BaseException:
        return (part_name, k, None, traceback.format_exc())


def _shrink_worker(task):
    prop_id, part_name, case, sig, budget, open_classes = task
    from . import shrink
    try:
        prop = load_prop(prop_id)
        part = prop.part(part_name)
        reset_library_state()

        def pred(c):
            if not part.shrink_ok(c):
                return False
            out = part.check(c)
            if out.fail is None or out.fail.sig != sig:
                return False
            cls = part.known_class(c, out.fail)
            return not (cls is not None and cls in open_classes)

        small, done = shrink.shrink(case, pred, budget)
        out = part.check(small)
        return (part_name, sig, small, out.fail.to_json() if out.fail else None, done, None)
    except BaseException:
        return (part_name, sig, case, None, False, traceback.format_exc())


# ---------------------------------------------------------------- parent side

def _pool():
    ctx = multiprocessing.get_context('fork')
    return concurrent.futures.ProcessPoolExecutor(max_workers=env.nproc(), mp_context=ctx)


class _Deadline:
    """Kills the worker pool when a whole check run exceeds its wall-clock limit (the run is then inconclusive)."""

    def __init__(self, seconds):
        import threading
        self.fired = False
        self.seconds = seconds
        self._timer = None
        self._threading = threading

    def watch(self, pool):
        def fire():
            self.fired = True
            for p in list(getattr(pool, '_processes', {}).values()):
                try:
                    p.kill()
                except Exception:
                    pass
        self._timer = self._threading.Timer(self.seconds, fire)
        self._timer.daemon = True
        self._timer.start()

    def cancel(self):
        if self._timer is not None:
            self._timer.cancel()


def write_replay(prop_id, part_name, case, fail_json, seed, tier, shrunk):
    os.makedirs(REPLAY_DIR, exist_ok=True)
    payload = {'property': prop_id, 'part': part_name, 'case': case, 'failure': fail_json,
               'seed': seed, 'tier': tier, 'shrunk': shrunk}
    h = '%016x' % case_hash([part_name, case])
    path = os.path.join(REPLAY_DIR, '%s-%s.json' % (prop_id, h[:12]))
    with open(path, 'w') as f:
        json.dump(payload, f, indent=1, sort_keys=True, default=repr)
        f.write('\n')
    return os.path.relpath(path, env.VERIF_DIR)


def replay_file(prop_id, path):
    with open(path) as f:
        payload = json.load(f)
    snapshot_library_state()
    prop = load_prop(prop_id)
    part = prop.part(payload['part'])
    reset_library_state()
    out = part.check(payload['case'])
    if out.fail is not None:
        print('replay: still fails: %s' % json.dumps(out.fail.to_json(), default=repr)[:2000])
        print('VIOLATION property=%s replay=%s' % (prop_id, path))
        return 1
    print('replay: case passes (skip=%r)' % (out.skip,))
    return 0


def run_check(prop_id, tier, seed):
    t0 = time.time()
    env.assert_repo_import()
    snapshot_library_state()
    prop = load_prop(prop_id)
    known = Known(prop_id)
    open_classes = known.open_classes()
    violations = []
    info = []
    if hasattr(prop, 'selfcheck'):
        # validates the oracle itself (e.g. a reference model against the spec); a failure is a harness error
        info.append('oracle self-check passed: %r' % (prop.selfcheck(),))

    # 1. witnesses of recorded findings: open ones are announced, fixed ones are regressions
    regress = 0
    for e in known.all:
        w = e.get('witness')
        if not w:
            continue
        part = prop.part(w['part'])
        reset_library_state()
        out = part.check(w['case'])
        regress += 1
        if e['status'] == 'open':
            if out.fail is not None:
                print('KNOWN-FINDING: property=%s %s %s' % (prop_id, e['id'], e['title']))
            else:
                print('INFO: open finding %s no longer reproduces on this tree' % e['id'])
                info.append('open finding %s did not reproduce' % e['id'])
        else:
            if out.fail is not None:
                path = write_replay(prop_id, w['part'], w['case'], out.fail.to_json(), seed, tier, True)
                violations.append((w['part'], out.fail.sig, path, 'regression of fixed finding %s' % e['id']))

    # 1b. regression corpus: shrunk failing cases once found by this check on deliberately broken trees
    #     (regress/<id>/*.json, see tools/build_regress.py); they are plain cases and bypass every generator
    corpus_n = 0
    rdir = os.path.join(env.VERIF_DIR, 'regress', prop_id)
    for name in sorted(os.listdir(rdir)) if os.path.isdir(rdir) else ():
        if not name.endswith('.json'):
            continue
        with open(os.path.join(rdir, name)) as f:
            payload = json.load(f)
        part = prop.part(payload['part'])
        reset_library_state()
        out = part.check(payload['case'])
        corpus_n += 1
        if out.fail is not None and not (hasattr(part, 'known_class') and part.known_class(payload['case'], out.fail) in open_classes):
            violations.append((payload['part'], out.fail.sig, os.path.join('regress', prop_id, name),
                               'regression corpus case (origin: %s)' % payload.get('origin')))

    # 2. parts
    parts = prop.parts()
    tasks = []
    for part in parts:
        n = part.shards(tier)
        for k in range(n):
            tasks.append((prop_id, part.name, k, n, seed, tier, open_classes))
    merged = {p.name: {'evaluations': 0, 'nt': set(), 'nt_count': 0, 'labels': collections.Counter(),
                       'skips': collections.Counter(), 'known': collections.Counter(),
                       'known_samples': {}, 'failures': {}, 'samples': [],
                       'extra': collections.Counter(), 'wall': 0.0} for p in parts}
    harness_errors = []
    monitor = prop.start_monitor(violations_hook=None) if hasattr(prop, 'start_monitor') else None
    deadline = _Deadline(float(os.environ.get('VERIF_MAX_WALL', '1800' if tier == 'quick' else '28800')))
    with _pool() as pool:
        deadline.watch(pool)
        try:
            for part_name, k, res, err in pool.map(_worker, tasks, chunksize=1):
                if err is not None:
                    harness_errors.append('%s[%d]: %s' % (part_name, k, err))
                    continue
                m = merged[part_name]
                m['evaluations'] += res['evaluations']
                m['nt'].update(res['nt'])
                m['nt_count'] += res.get('nt_count', 0)
                m['labels'].update(res['labels'])
                m['skips'].update(res['skips'])
                m['known'].update(res['known'])
                m['extra'].update(res['extra'])
                m['wall'] = max(m['wall'], res['wall'])
                for c, s in res['known_samples'].items():
                    m['known_samples'].setdefault(c, s)
                for sig, (case, fj, cnt) in res['failures'].items():
                    prev = m['failures'].get(sig)
                    if prev is None:
                        m['failures'][sig] = [case, fj, cnt]
                    else:
                        prev[2] += cnt
                        if case_size(case) < case_size(prev[0]):
                            prev[0], prev[1] = case, fj
                if len(m['samples']) < 8:
                    m['samples'].extend(res['samples'][:8 - len(m['samples'])])
        except concurrent.futures.process.BrokenProcessPool as e:
            # a worker that detects an uninterruptible hang saves the case and exits (see C01)
            import glob
            hangs = glob.glob(os.path.join(REPLAY_DIR, '%s-hang-*.json' % prop_id))
            for hp in hangs:
                with open(hp) as f:
                    payload = json.load(f)
                os.unlink(hp)
                path = write_replay(prop_id, payload['part'], payload['case'], payload['failure'], seed, tier, False)
                violations.append((payload['part'], payload['failure']['sig'], path, 'worker hung on this case'))
            if not hangs and not deadline.fired:
                harness_errors.append('worker pool broke: %r' % (e,))

        # 3. shrink and record new failures
        shrink_tasks = []
        budget = 25 if tier == 'quick' else 120
        for part in parts:
            fails = sorted(merged[part.name]['failures'].items(), key=lambda kv: case_size(kv[1][0]))
            n_shrink = 0 if getattr(part, 'no_shrink', False) else 6
            for sig, (case, fj, cnt) in fails[:n_shrink]:
                if sig.startswith('termination:'):
                    # a failure judged by the clock is not minimised: the smallest case that still fails sits exactly on the
                    # time limit and stops failing on a faster or less busy machine (seen with the corpus case of seed C01-h)
                    path = write_replay(prop_id, part.name, case, fj, seed, tier, False)
                    violations.append((part.name, sig, path, '%d cases; %s' % (cnt, json.dumps(fj, default=repr)[:1500])))
                    continue
                shrink_tasks.append((prop_id, part.name, case, sig, budget, open_classes))
            for sig, (case, fj, cnt) in fails[n_shrink:]:
                path = write_replay(prop_id, part.name, case, fj, seed, tier, False)
                violations.append((part.name, sig, path, '%d cases' % cnt))
        if shrink_tasks and not harness_errors:
            for part_name, sig, small, fj, done, err in pool.map(_shrink_worker, shrink_tasks, chunksize=1):
                if err is not None:
                    harness_errors.append('shrink %s %s: %s' % (part_name, sig, err))
                    continue
                if fj is None:
                    fj = merged[part_name]['failures'][sig][1]
                    small = merged[part_name]['failures'][sig][0]
                path = write_replay(prop_id, part_name, small, fj, seed, tier, done)
                cnt = merged[part_name]['failures'][sig][2]
                violations.append((part_name, sig, path, '%d cases; %s' % (cnt, json.dumps(fj, default=repr)[:1500])))

    deadline.cancel()
    if monitor is not None:
        monitor.stop()
    if deadline.fired:
        print('HARNESS-ERROR overall wall-clock limit reached (inconclusive, not a violation)', file=sys.stderr)
        return 2

    # 4. generator health: required label fractions
    degenerate = []
    for part in parts:
        m = merged[part.name]
        counted = m['evaluations'] - sum(m['skips'].values())
        for lab, frac in part.required_labels.items():
            if counted > 200 and m['labels'].get(lab, 0) < frac * counted:
                degenerate.append('%s: label %r %d/%d < %.3f' % (part.name, lab, m['labels'].get(lab, 0), counted, frac))

    # 5. evidence
    total_eval = sum(m['evaluations'] for m in merged.values())
    n_nontrivial = sum(len(m['nt']) + m['nt_count'] for m in merged.values())
    samples = []
    for part in parts:
        for s in merged[part.name]['samples'][:4]:
            entry = {'part': part.name, 'case': _clip(s, 400)}
            if hasattr(part, 'describe'):
                try:
                    entry['shown_as'] = _clip(part.describe(s), 700)      # e.g. the Markdown a choice tape decodes to
                except Exception as exc:
                    entry['shown_as'] = 'describe failed: %r' % (exc,)
            samples.append(entry)
    coverage = {
        'evaluations': total_eval + regress,
        'distinct_nontrivial': n_nontrivial,
        'rule': prop.rule,
        'samples': samples,
        'exhaustive': bool(parts) and all(p.exhaustive for p in parts),
        'parts': {
            p.name: {
                'evaluations': merged[p.name]['evaluations'],
                'distinct_nontrivial': len(merged[p.name]['nt']) + merged[p.name]['nt_count'],
                'exhaustive': p.exhaustive,
                'rule': p.rule,
                'labels': dict(sorted(merged[p.name]['labels'].items())),
                'skipped_outside_domain': dict(merged[p.name]['skips']),
                'excluded_known_finding_classes': dict(merged[p.name]['known']),
                'excluded_samples': _clip(merged[p.name]['known_samples'], 300),
                'extra': dict(merged[p.name]['extra']),
                'slowest_shard_wall_s': round(merged[p.name]['wall'], 2),
            } for p in parts},
        'known_finding_witnesses_replayed': regress,
        'regression_corpus_replayed': corpus_n,
        'signatures': [{'part': v[0], 'sig': v[1], 'replay': v[2]} for v in violations],
    }
    evidence = {
        'property_id': prop_id,
        'tier': tier,
        'seed': seed,
        'level': 'exploration',
        'coverage': coverage,
        'assumptions': list(prop.assumptions) + info,
        'wall_s': round(time.time() - t0, 2),
        'violations': len(violations),
    }
    os.makedirs(EVIDENCE_DIR, exist_ok=True)
    with open(os.path.join(EVIDENCE_DIR, '%s.json' % prop_id), 'w') as f:
        json.dump(evidence, f, indent=1, sort_keys=True, default=repr)
        f.write('\n')

    for name, m in merged.items():
        print('part %-28s evals=%-9d nontrivial=%-8d skipped=%-7d known-excluded=%-6d wall=%.1fs' % (
            name, m['evaluations'], len(m['nt']) + m['nt_count'], sum(m['skips'].values()), sum(m['known'].values()), m['wall']))
    for part_name, sig, path, what in violations:
        print('FAIL part=%s sig=%s %s' % (part_name, sig, what))
        print('VIOLATION property=%s replay=%s' % (prop_id, path))
    if harness_errors:
        for e in harness_errors:
            print('HARNESS-ERROR %s' % e, file=sys.stderr)
        return 1 if violations else 2
    if violations:
        return 1
    if degenerate:
        for d in degenerate:
            print('HARNESS-ERROR generator degenerate: %s' % d, file=sys.stderr)
        return 2
    print('OK property=%s tier=%s seed=%d evaluations=%d distinct_nontrivial=%d wall=%.1fs' % (
        prop_id, tier, seed, coverage['evaluations'], coverage['distinct_nontrivial'], time.time() - t0))
    return 0
