"""Input layout of the atheris target (shared with vf.props.c01, which must not import atheris)."""
from . import renderers
from .gen.tape import Tape

_BAD_SEPARATORS = dict.fromkeys(map(ord, '\r\x0b\x0c\x1c\x1d\x1e\x85\u2028\u2029\x00'))
NAMES = [n for n in renderers.NAMES if n != 'Pygments']      # Pygments lexers are not the code under test


def decode(data):
    if len(data) < 2:
        return None
    name = NAMES[data[0] % len(NAMES)]
    t = Tape(bytes([data[1]]) * 8)
    opts = renderers.draw_opts(t, name)
    form = renderers.FORMS[data[1] % len(renderers.FORMS)]
    text = data[2:].decode('utf-8', 'ignore').translate(_BAD_SEPARATORS)
    text = ''.join(c for c in text if not 0xD800 <= ord(c) <= 0xDFFF)
    return {'text': text, 'renderer': name, 'opts': opts, 'form': form}
