"""Coverage-guided fuzzing of parse-and-render (C01 thorough tier) with atheris / libFuzzer.

Run as a subprocess by vf.props.c01.Atheris:   python -m vf.fuzz_atheris <libFuzzer args> CORPUS_DIR
Input layout: byte 0 selects the renderer configuration, byte 1 its options and the input form,
the rest is the document (UTF-8, undecodable bytes dropped, '\\r' and other non-'\\n' line separators
removed so that the input stays inside the property's domain).  The C01 oracle runs inside the
target: an exception outside the allow-list (or a non-str result) saves the case as JSON next to the
corpus and raises, which makes libFuzzer stop and keep the input."""
import json
import os
import sys

from . import env  # noqa: F401  (puts the tree under test first on sys.path)

import atheris  # noqa: E402

with atheris.instrument_imports(include=['mistletoe']):
    import mistletoe  # noqa: F401
    import mistletoe.markdown_renderer  # noqa: F401
    import mistletoe.latex_renderer  # noqa: F401
    import mistletoe.ast_renderer  # noqa: F401
    import mistletoe.contrib.jira_renderer  # noqa: F401
    import mistletoe.contrib.xwiki20_renderer  # noqa: F401
    import mistletoe.contrib.toc_renderer  # noqa: F401
    import mistletoe.contrib.github_wiki  # noqa: F401
    import mistletoe.contrib.mathjax  # noqa: F401

from . import core, renderers  # noqa: E402

from .fuzz_atheris_decode import decode  # noqa: E402

OUT_DIR = os.environ.get('VF_FUZZ_OUT', '.')


def test_one_input(data):
    from .props import c01
    case = decode(data)
    if case is None:
        return
    core.reset_library_state()
    try:
        out, doc = renderers.render(case['renderer'], case['opts'], case['text'], case['form'])
    except Exception as exc:
        if c01.admissible(exc, case):
            return
        path = os.path.join(OUT_DIR, 'finding-%d.json' % os.getpid())
        with open(path, 'w') as f:
            json.dump({'case': case, 'error': repr(exc)[:300]}, f)
        raise
    if not isinstance(out, str):
        with open(os.path.join(OUT_DIR, 'finding-%d.json' % os.getpid()), 'w') as f:
            json.dump({'case': case, 'error': 'returned %s' % type(out).__name__}, f)
        raise TypeError('render returned %s' % type(out).__name__)


def main():
    core.snapshot_library_state()
    atheris.Setup(sys.argv, test_one_input)
    atheris.Fuzz()


if __name__ == '__main__':
    main()
