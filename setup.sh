#!/bin/bash
# Offline, idempotent setup: the checks run under /venv/bin/python, which already
# has mistletoe (editable, from /repo), Pygments and pytest.  Hypothesis comes from
# the offline wheelhouse; atheris (thorough tier of C01 only) goes to /verif/.deps.
set -u
cd "$(dirname "$0")" || exit 1
WH=/opt/veriftools/wheels
export PIP_NO_INDEX=1 PIP_DISABLE_PIP_VERSION_CHECK=1
if ! /venv/bin/python -c "import hypothesis" 2>/dev/null; then
    /venv/bin/pip install --no-index --find-links "$WH" hypothesis || exit 1
fi
if ! PYTHONPATH=.deps /venv/bin/python -c "import atheris" 2>/dev/null; then
    /venv/bin/pip install --no-index --find-links "$WH" --target .deps atheris >/dev/null 2>&1 \
        || echo "setup: atheris not installable here; C01 thorough falls back to Hypothesis only"
fi
/venv/bin/python -c "import hypothesis, pygments; print('setup ok: hypothesis', hypothesis.__version__)"
